#!/bin/bash
# usage: verify_mutant.sh <ID> <mK>   -- verifies a sub-agent's seeded change in a scratch worktree of /repo HEAD
# writes /verif/seeded/<ID>-<mK>/{patch.diff,demo_test.go,README.md,verify.log} ; prints a one-line summary
set -u
export GOFLAGS=-mod=mod GOPROXY=off GOSUMDB=off GOTOOLCHAIN=local
ID=$1; M=$2
SRC=${SEEDED_SRC:-/tmp/seeded-out}/$ID/$M
TAG=${SEEDED_TAG:-}
DST=/verif/seeded/$ID-$TAG$M
WT=/tmp/vm-$ID-$TAG$M
mkdir -p $DST
LOG=$DST/verify.log; : > $LOG
git -C /repo worktree remove --force $WT >/dev/null 2>&1
git -C /repo worktree add -q --detach $WT HEAD || { echo "$ID $M worktree failed"; exit 1; }
cd $WT
cp $SRC/README.md $DST/README.md 2>/dev/null
# demonstration
if [ -f $SRC/demo_test.go ]; then cp $SRC/demo_test.go tests/zz_demo_test.go; cp $SRC/demo_test.go $DST/demo_test.go; fi
if [ -d $SRC/demo ]; then cp -r $SRC/demo $DST/; fi
RUN=$(grep -o "Test[A-Za-z0-9_]*" $SRC/demo_test.go | grep -i seeded | sort -u | head -1)
echo "demo test regexp: $RUN" >> $LOG
base_ok=0
for i in 1 2 3; do go test -vet=off -count=1 -timeout 10m -run "$RUN" ./tests/ >> $LOG 2>&1 && base_ok=$((base_ok+1)); done
# apply (3-way: patches were made against an earlier commit)
if git apply --3way $SRC/patch.diff >> $LOG 2>&1; then applied=yes; else applied=no; fi
git diff HEAD -- . ':!tests/zz_demo_test.go' > $DST/patch.diff
build=fail; suite=fail; demo_fail=0
if [ $applied = yes ] && go build ./... >> $LOG 2>&1; then
  build=ok
  for try in 1 2 3; do  # the suite has a rare timing flake under load (also on the unchanged tree): retry
    if go test -vet=off -count=1 -timeout 25m -skip 'Seeded' ./... >> $LOG 2>&1; then suite=pass; break; fi
  done
  for i in 1 2 3; do go test -vet=off -count=1 -timeout 10m -run "$RUN" ./tests/ >> $LOG 2>&1 || demo_fail=$((demo_fail+1)); done
fi
cd /; git -C /repo worktree remove --force $WT
echo "$ID $TAG$M applied=$applied build=$build suite_with_change=$suite demo_without_change_pass=$base_ok/3 demo_with_change_fail=$demo_fail/3" | tee $DST/verify.summary
