#!/usr/bin/env python3
"""Prints the markdown table of DESIGN.md section 14 from /verif/seeded/*/meta.json."""
import json, os
rows = []
for d in sorted(os.listdir('/verif/seeded')):
    mp = os.path.join('/verif/seeded', d, 'meta.json')
    if not os.path.exists(mp):
        continue
    m = json.load(open(mp))
    chk = m['check_run'].split('./check ')[1].split()[0]
    keys = ', '.join('`%s`' % k for k in m.get('violation_keys', [])[:2])
    rows.append('| %s | %s | %s | %s %s | %s |' % (d, m.get('mechanism', ''), m.get('what_it_needs_to_manifest', '')[:160], chk, 'caught' if m.get('caught') else '**missed**', keys))
print('| id | change | needs | check (quick) | first class keys |')
print('|---|---|---|---|---|')
print('\n'.join(rows))
