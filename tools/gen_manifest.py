#!/usr/bin/env python3
"""Regenerates /verif/MANIFEST.json from the table below."""
import json, subprocess, sys

CLAIMED = sys.argv[1:] if len(sys.argv) > 1 else []

HOOK_COMMITS = ["3c6a5a1", "50f87ec", "fe2bb40", "11d1f9b", "0a08805", "cfbae01", "8836ec2"]

T_MON = "runtime monitoring: real go-orbit-db stores run under generated hostile workloads on a simulated network; oracle = executable reference model over observed API state, wire log and hook events"

P = {
 "C01": ("exploration", "Held on every generated multi-writer history and delivery schedule executed: replicas with equal entry sets showed equal order/heads/view and each view equalled the LWW replay of its own listing. Sampled (PRNG) exploration of histories x delivery orders x routes; cannot enumerate all orders, so this is evidence over the executions observed, not a proof.", "10 C01", "simulated pubsub/direct channel/block exchange; dependency hashing+signatures; uniqueness assumption of the property guaranteed by the generator", T_MON + " (cross-replica equality + LWW/(time,id) reference order)"),
 "C02": ("exploration", "Bounded-progress restatement of the liveness claim: after random fault scripts and the final heal+bounce phase every replica held exactly the acknowledged writes, or the run is a violation only at confirmed rest (pending counter 0, pool empty, replicators idle, stable window). Sampled fault scripts.", "10 C02", "liveness only as bounded progress against a state-defined rest condition; restart = clean close; simulated network", T_MON + " (convergence-at-rest oracle with quiescence protocol)"),
 "C03": ("exploration", "The full matrix write-list x controller x forgery kind x route x store type is enumerated; each cell delivers a really-forged entry to a live replica and checks it never appears in any log/view, with an honest marker proving the path was alive. Enumerated over the named forgery kinds and routes, sampled over surrounding histories.", "10 C03", "ground truth of authorship by construction; dependency crypto primitives trusted; simple/orbitdb controllers exercised through their public constructors (reduced routes)", T_MON + " (adversary-built entries, membership + replay oracle, negative control under wildcard)"),
 "C04": ("exploration", "Every single-field wire mutation x hash mode x route x position enumerated; a classifier from the dependency's own hash/signature primitives decides which clause applies and the oracle checks the entry is absent by claimed and true hash and prior state is intact.", "10 C04", "dependency hash/CBOR/signature primitives are the classifier's trusted base; content-addressed block exchange", T_MON + " (mutation matrix + classifier-derived expectations)"),
 "C05": ("fault_enumeration", "For each recorded history EVERY prefix of the ordered persistence-effect log (block writes, cache and keystore writes) is replayed into a fresh peer which must recover all entries acknowledged before the crash point, only real entries, closed under next, with the replay view and a working identity; plus clean close/reopen cycles on disk and SIGKILL of a process on real leveldb. Exhaustive per history, histories sampled.", "10 C05", "each effect durable once its call returns (no fsync/power-loss model); sequential writers (concurrent writers are C17)", "crash-point enumeration over a recorded effect log + recovery oracle (runtime monitoring of real recovery code)"),
 "C06": ("exploration", "After every step on every replica All()/Get equal the LWW replay of the replica's own log and the order extends happens-before, under random replication interleavings and targeted write/merge races widened by a schedule-point handler. Sampled histories and interleavings.", "10 C06", "simulated network; concurrent Put callers on one replica are C17", T_MON + " (per-step replay model, schedule points at index.after-values)"),
 "C07": ("exploration", "As C06 for Put/PutBatch/PutAll/Delete plus enumerated Get option combinations over all keys/case variants/substrings and a Query predicate family, and the delete-absent rule; sampled histories.", "10 C07", "search keys without spaces (excluded by the property)", T_MON + " (per-step replay model incl. batch puts, Get/Query model)"),
 "C08": ("exploration", "Per replica and checkpoint: listing stability (subsequence), writer-seen order, and complete enumeration of window queries (bound kind x every entry x 9 amounts) against an independently written iterator contract; histories sampled, windows enumerated per state.", "10 C08", "bounds are log entries; two bounds at once exercised but not judged", T_MON + " (window contract model, subsequence monitor)"),
 "C09": ("exploration", "Instances with 2-4 databases on the default shared bus: while one database is active every other keeps entries, view and replication status, receives no store event, and every wire message / event carries only the owning database's entries. Sampled scripts.", "10 C09", "simulated network; harness subscribes to the shared bus as a user would", T_MON + " (wire-log and event-bus monitors, idle-database invariance)"),
 "C10": ("fault_enumeration", "Enumerated: valid-head count x bad kind x position x placement x receiver state, with remote fetch completions shuffled by a gate; after an honest re-announcement and rest the receiver must hold the closure of the valid heads. Negative verdicts only at confirmed rest.", "10 C10", "whether a bad entry got in is judged by C03/C04, not here", T_MON + " (fault enumeration of announcement mixes with held/reordered block fetches)"),
 "C11": ("fault_enumeration", "Every single cancellation point (hook points, mid-fetch, deadline, injected fetch error) x ordinal is enumerated on short and long logs, pairs/triples sampled; a final uncancelled Sync must deliver the full closure at rest. Load requests: Store.Load(-1) aborted at the k-th entry read (cancel, read error, persistent block error, deadline) 1-3 times, then a final uncancelled Load(-1) must show every persisted entry.", "10 C11", "cancellation granularity = hook points + block fetch; final request's blocks fetchable", T_MON + " (cancellation injected at verifhook schedule points and in the block-fetch gate)"),
 "C12": ("exploration", "Thousands of generated byte strings per run on three paths (topic, direct payload, raw libp2p stream frames to the real handler); each child process logs the input before sending; survival, later valid message handled (also when refused variants naming its head arrive first, and with 20-50 truncated frames on streams kept open), and unchanged state are checked. Sampled inputs from structured generators.", "10 C12", "unknown CIDs fail like a timed-out fetch; structured generators approximate 'every byte string'", "hostile-input fuzzing under runtime monitors (crash attribution per child process, state and liveness oracles); -race/checkptr build in the thorough tier"),
 "C13": ("exploration", "Log shapes x payload sizes (0..300 KiB around the 64 KiB boundary) x store types with real UnixFS chunking: SaveSnapshot either errors or a fresh instance reconstructs the same entries, heads and view from it; no panic. Sampled shapes, enumerated size classes.", "10 C13", "snapshot reloaded on the same node (blocks local)", T_MON + " (round-trip oracle)"),
 "C14": ("exploration", "Hundreds of (name, type, write list) tuples incl. hostile names: same inputs => same address on 3 peers, different inputs => different addresses (collision map), print/parse round trip, open on another peer yields recorded type and write list, overwrite/local-only rules, one parameters value reused across databases, Open with a missing block. Sampled inputs from a structured generator.", "10 C14", "address computation through the public DetermineAddress/Create/Open API", T_MON + " (determinism / injectivity / round-trip oracles over generated inputs)"),
 "C15": ("fault_enumeration", "Persisted logs (1-3 heads, local+replicated branches) x every limit in {-5,-1,0,1,2,branch±1,total-1,total,total+1,total+50} per call and via MaxHistory: count, subsequence, newest-included, single-writer exactness, no panic; the same handle loaded again with the same limit after newer entries were persisted.", "10 C15", "limits enumerated per log, logs sampled", T_MON + " (limit enumeration with listing oracle; crash attribution)"),
 "C16": ("exploration", "Each write <-> exactly one EventWrite, merged entries appear in EventReplicated, at receipt the store already reflects the entries, and bus + legacy subscribers see write events in order without loss/duplication under stalling pacing (including a subscriber that falls hundreds of events behind twice), schedule-point handlers that interleave the legacy emitter's two goroutines or hold index rebuilds, and batches containing an entry the merge refuses. Sampled.", "10 C16", "unique entry hashes identify events", T_MON + " (event-order/exactly-once monitor, schedule point legacy.after-dequeue)"),
 "C17": ("exploration", "2-8 goroutines write concurrently with targeted orderings at write.after-append / write.after-persist; all acknowledged hashes distinct, visible, and still present after close/reopen/Load; batched writes and slow head writes injected at the cache datastore, the schedule ending where an older head lands after a newer one. Sampled interleavings, distinct arrival orders counted.", "10 C17", "on-disk directory; clean close", T_MON + " (schedule points + recovery oracle); -race in thorough"),
 "C18": ("exploration", "Close of a store / instance at idle and at schedule points during writes, replication and loads; post-close operations must return, repeated Close is nil, no goroutine created by go-orbit-db remains, directory reopens with acknowledged data, Drop removes only its database; also with the instance's creation context cancelled first, a datastore failing on Close, and legacy subscriptions cancelled while their dequeuer is about to sleep.", "10 C18", "goroutine attribution by creation site; harness subscriptions cancelled first", T_MON + " (goroutine-leak and hang monitors, reopen oracle)"),
 "C19": ("exploration", "Every SetProgress/SetMax transition observed through hooks (old->new) must not decrease; at rest with a complete log progress==max in [maxClock,len]. Sampled histories of writes, replications, loads, snapshot loads (into the live store and snapshot-only after a restart), injected head-write failures and local writes in the middle of a replication.", "10 C19", "one database per instance", T_MON + " (transition monitor on replication-info hooks + rest oracle)"),
 "C20": ("exploration", "Scripted membership snapshots -> join/leave events equal successive set differences; own messages never delivered, foreign exactly once and intact; pairwise channel name symmetric; direct-channel frames 0..limit+ over real in-memory libp2p hosts delivered exactly once (also over streams that deliver writes in pieces), oversize refused without disturbing later traffic; oneonone reconnect after the connecting store's context ended and sends issued as soon as Connect returns. Sampled scripts/payloads.", "10 C20", "scripted coreiface.PubSubAPI and mocknet hosts stand in for the network", "runtime monitoring of the real adapters against scripted transports (exactly-once / attribution monitors with unique payload ids)"),
}

checks = []
for pid in sorted(P):
    if pid not in CLAIMED:
        continue
    cat, text, ref, note, tech = P[pid]
    checks.append({
        "property_id": pid,
        "quick_cmd": f"./check {pid} quick",
        "thorough_cmd": f"./check {pid} thorough",
        "evidence_file": f"/verif/evidence/{pid}.json",
        "replay_cmd_template": f"./check {pid} --replay {{path}}",
        "engine": "harness",
        "level_claimed": {"category": cat, "text": text, "design_ref": "DESIGN.md section " + ref},
        "level_note": note,
        "technique": tech,
    })

na = [{"property_id": pid, "reason": "monitor not built yet in this session (design in DESIGN.md section 10); not claimed until it is silent on the unchanged tree"} for pid in sorted(P) if pid not in CLAIMED]

m = {
 "version": 1,
 "setup_cmd": "./setup.sh",
 "hooks": {
  "guard": "verif",
  "enable": "go build -tags verif [-race] in /verif/harness (replace berty.tech/go-orbit-db => /repo); hooks are calls to /repo/verifhook, empty functions without the tag",
  "baseline_off_cmd": "cd /repo && GOFLAGS=-mod=mod GOPROXY=off GOSUMDB=off GOTOOLCHAIN=local go test -vet=off -count=1 -timeout 25m ./...",
  "source_commits": HOOK_COMMITS,
  "add_only": True,
 },
 "engines": [{"name": "harness", "path": "/verif/harness", "serves_properties": [c["property_id"] for c in checks], "kind_free_text": "Go program (parent + child processes) embedding real go-orbit-db instances over a simulated network, with hook handler, reference models, adversary toolkit and per-property monitors"}],
 "checks": checks,
 "not_applicable": na,
 "notes": "Every check: exit 0 held / 1 VIOLATION / 3 INCONCLUSIVE. quick = plain build, thorough = -race build with more cases. Known findings: /verif/KNOWN_FINDINGS.txt. VERIF_SEED selects the PRNG seed (default 1). Two fix commits in /repo (09ed9c0, 72363d5) add a code path next to existing hook calls and therefore carry one call to the no-op verifhook package each (Processed, Emitting) so that the pending-work accounting stays balanced; they add no hook of their own.",
}
json.dump(m, open('/verif/MANIFEST.json', 'w'), indent=1)
print("claimed:", [c["property_id"] for c in checks])
