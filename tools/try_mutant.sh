#!/bin/bash
# usage: try_mutant.sh <patch.diff> <ID> [tier]  -- applies the change to /repo, runs the check, undoes it
set -u
PATCH=$1; ID=$2; TIER=${3:-quick}
cd /repo || exit 2
if ! git diff --quiet; then echo "/repo working tree is dirty"; exit 2; fi
if ! git apply --3way "$PATCH" >/dev/null 2>&1; then echo "patch does not apply"; git reset -q --hard HEAD; exit 2; fi
git reset -q   # --3way stages; keep the change in the working tree only
cd /verif && ./check "$ID" "$TIER" 2>&1 | grep -v '^  obs\|conda' | cut -c1-400 | head -${LINES_OUT:-8}
rc=${PIPESTATUS[0]}
git -C /repo checkout -- .
git -C /repo status --short | grep -v '^??' | head -3
exit $rc
