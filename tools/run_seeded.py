#!/usr/bin/env python3
"""Runs the registered check(s) against every kept seeded change (/verif/seeded/<id>/patch.diff):
applies it to /repo, runs ./check <ID> quick, undoes it, and records the outcome in meta.json.
usage: tools/run_seeded.py [id ...]"""
import json, os, re, subprocess, sys, time

SEEDED = '/verif/seeded'
# property whose check is expected to catch the change (default: the property in the id)
CHECK_OVERRIDE = {'C06-r6m1': 'C15', 'C19-r6m2': 'C11', 'C04-r5m1': 'C03', 'C14-r4m1': 'C03', 'C05-r4m1': 'C09', 'C04-r3m1': 'C03', 'C16-r3m1': 'C17', 'C09-r3m2': 'C20', 'C04-m1': 'C03', 'C04-r2m1': 'C03', 'C08-r2m2': 'C17', 'C02-r2m2': 'C20'}
MECH = json.load(open('/verif/tools/seeded_mech.json'))

def sh(cmd, **kw):
    return subprocess.run(cmd, shell=True, capture_output=True, text=True, **kw)

def main():
    ids = sys.argv[1:] or sorted(d for d in os.listdir(SEEDED) if os.path.isdir(os.path.join(SEEDED, d)))
    if sh('git -C /repo diff --quiet').returncode != 0:
        print('/repo working tree is dirty'); sys.exit(2)
    rows = []
    for sid in ids:
        d = os.path.join(SEEDED, sid)
        prop = sid.split('-')[0]
        chk = CHECK_OVERRIDE.get(sid, prop)
        patch = os.path.join(d, 'patch.diff')
        a = sh(f'git -C /repo apply --3way {patch}')
        sh('git -C /repo reset -q')
        if a.returncode != 0:
            sh('git -C /repo reset -q --hard HEAD')
            rows.append((sid, chk, 'patch does not apply', '', 0)); continue
        t0 = time.time()
        r = sh(f'cd /verif && ./check {chk} quick')
        dt = time.time() - t0
        sh('git -C /repo checkout -- .')
        out = r.stdout
        keys = sorted(set(re.findall(r'^\s+key=(\S+)', out, re.M)))
        head = out.strip().split('\n')[0] if out.strip() else ''
        caught = r.returncode == 1 and 'VIOLATION' in out
        meta_path = os.path.join(d, 'meta.json')
        meta = json.load(open(meta_path)) if os.path.exists(meta_path) else {}
        summ = open(os.path.join(d, 'verify.summary')).read().strip() if os.path.exists(os.path.join(d, 'verify.summary')) else ''
        readme = open(os.path.join(d, 'README.md')).read() if os.path.exists(os.path.join(d, 'README.md')) else ''
        meta.update({
            'id': sid,
            'breaks_property': prop,
            'origin': 'independent sub-agent given only the property text and a scratch worktree of /repo',
            'mechanism': MECH.get(sid, [meta.get('mechanism', '') or title_of(readme), ''])[0],
            'what_it_needs_to_manifest': MECH.get(sid, ['', ''])[1] or meta.get('what_it_needs_to_manifest') or extract_needs(readme),
            'verified_by_me': summ,
            'verification_commands': 'tools/verify_mutant.sh (scratch worktree of /repo HEAD: demo x3 without the change, existing suite with the change, demo x3 with the change)',
            'check_run': f'git -C /repo apply patch.diff; ./check {chk} quick; git -C /repo checkout -- .',
            'check_exit_code': r.returncode,
            'caught': caught,
            'violation_keys': keys[:8],
            'check_summary_line': head,
            'check_wall_s': round(dt, 1),
        })
        json.dump(meta, open(meta_path, 'w'), indent=1)
        rows.append((sid, chk, 'CAUGHT' if caught else 'MISSED (exit %d)' % r.returncode, ', '.join(keys[:3]), dt))
        print(rows[-1], flush=True)
    print()
    for r in rows:
        print('%-8s %-4s %-22s %5.0fs  %s' % (r[0], r[1], r[2], r[4], r[3]))

def title_of(readme):
    for line in readme.split('\n'):
        if line.strip():
            t = line.lstrip('# ').strip()
            return re.sub(r'^C\d+\s*/\s*m\d+\s*[—-]+\s*', '', t)
    return ''

def extract_needs(readme):
    m = re.search(r'(?is)(what it needs[^\n]*\n+)(.*?)(\n#|\n\*\*|\Z)', readme)
    if m:
        return ' '.join(m.group(2).split())[:600]
    m = re.search(r'(?is)(trigger[^\n]*\n+)(.*?)(\n#|\Z)', readme)
    if m:
        return ' '.join(m.group(2).split())[:600]
    return ''

if __name__ == '__main__':
    main()
