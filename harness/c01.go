package main

import (
	"context"
	"fmt"
	"math/rand"
	"time"

	ipfslog "berty.tech/go-ipfs-log"
	"berty.tech/go-orbit-db/iface"
	"berty.tech/go-orbit-db/stores/basestore"

	"verifharness/fw"
	"verifharness/sim"
)

func init() {
	fw.Register(&fw.Property{
		ID:    "C01",
		Level: "exploration",
		Rule: "cases = PRNG-generated multi-writer histories (chains, forks, merges; 1-4 writers, 3 store types) executed on real stores over the simulated network with per-replica random delivery order, batching (bursts), drops, duplication and deliveries during which a remote block fetch fails (the message is delivered again later), in every second key-value / document case with more steps where a local write races a merge on the same replica while a schedule-point handler holds one index rebuild until another has finished, plus observer replicas fed by other routes (exchange on join, manual Sync of shuffled/duplicated head and non-head entries, restart + load from disk, snapshot). " +
			"distinct = hash(store type, step script); non-trivial = (>= 2 writers or a fork in the DAG) and >= 2 replicas with equal non-empty entry sets were compared at some checkpoint",
		Assumptions: []string{
			"no two distinct entries share (Lamport time, writer key): each identity writes through one live store that loaded its log (generator guarantees it)",
			"simulated pubsub/direct channel/block exchange replace libp2p; everything from message bytes to visible state is the real code",
		},
		Cases:       c01Cases,
		Run:         c01Run,
		MinDistinct: map[string]int{"quick": 10, "thorough": 100},
		Batch:       6,
		CaseTimeout: 180 * time.Second,
		Explain:     "oracles: (1) replicas with equal entry sets must have equal Values() order, heads and view at every checkpoint; (2) each replica's view equals the LWW replay of its own listing, its order extends happens-before and equals the (time,id) reference order, heads equal the model heads.",
	})
}

func c01Cases(tier string, seed int64) []fw.Case {
	n := 60
	if tier == "thorough" {
		n = 400
	}
	rng := rand.New(rand.NewSource(seed*7919 + 101))
	var out []fw.Case
	for i := 0; i < n; i++ {
		typ := storeTypes[i%3]
		out = append(out, fw.Case{Idx: i, Seed: rng.Int63(), P: map[string]interface{}{
			"type":    typ,
			"peers":   3 + rng.Intn(3),
			"writers": 1 + rng.Intn(4),
			"steps":   10 + rng.Intn(36),
			"ondisk":  i%4 == 0,
			"hold":    i%2 == 1,
		}})
	}
	return out
}

func c01Run(c fw.Case) fw.Verdict {
	e := NewEnv()
	defer e.Close()
	rng := rand.New(rand.NewSource(c.Seed))
	np := c.Int("peers", 3)
	nw := c.Int("writers", 2)
	if nw > np {
		nw = np
	}
	wr := make([]int, nw)
	for i := range wr {
		wr[i] = i
	}
	r := &Runner{E: e, Rng: rng, Cfg: ScenCfg{
		Type: c.Str("type", tKV), NPeers: np, Writers: wr, NSteps: c.Int("steps", 20),
		Keys: []string{"a", "b", "ключ"}, OnDisk: c.Bool("ondisk"),
		WWrite: 40, WDeliver: 25, WDeliverAll: 4, WDrop: 8, WDup: 6, WSync: 5, WBurst: 6, WCut: 3, WHeal: 4, WConc: 4, WFaultyDeliver: 5, WHoleHeal: 4, WSnapshot: 3,
		CheckEvery: 6,
	}}
	if r.Cfg.OnDisk {
		r.Cfg.WRestart = 3
	}
	r.Checks = []func(*Runner, []*Snap, string) *Violation{oracleSameSet, oracleModel}
	ih := &indexHolder{}
	if c.Bool("hold") && r.Cfg.Type != tEvent {
		// more write/merge races, and one index rebuild is held until another has finished: the state must
		// still be a function of the set of entries, not of which rebuild finished last
		r.Cfg.WConc = 30
		r.Cfg.CheckEvery = 1
		ih.install(e)
		ih.set(true)
	}
	if err := r.Setup(); err != nil {
		return fw.Verdict{Status: fw.Inconclusive, What: "setup: " + err.Error()}
	}
	steps := r.GenSteps(rng)
	r.Exec(steps)
	ih.set(false)
	r.V.Count("index_rebuilds_held", int64(ih.Holds))
	r.V.Count("index_rebuilds_overtaken_while_held", int64(ih.Overlap))
	routes := []string{}
	if r.failed == nil && !r.watchdog {
		routes = c01Routes(r, rng)
	}
	return r.finish(steps, routes, func() bool {
		// non-trivial: >=2 writers or a fork, and comparisons were made
		writers := map[int]bool{}
		for _, w := range r.WriterOf {
			writers[w] = true
		}
		fork := false
		nexts := map[string]int{}
		for _, e := range r.Universe {
			for _, n := range e.Next {
				nexts[n]++
				if nexts[n] > 1 {
					fork = true
				}
			}
		}
		return (len(writers) >= 2 || fork) && r.Compared >= 1
	})
}

// finish turns the runner state into a verdict.
func (r *Runner) finish(steps []Step, routes []string, nontrivial func() bool) fw.Verdict {
	v := r.V
	v.Count("checkpoints", int64(r.Checkpoints))
	v.Count("acked_writes", int64(len(r.Acked)))
	v.Count("entries_in_universe", int64(len(r.Universe)))
	v.Count("announcements_lost", int64(r.Lost))
	v.Count("restarts", int64(r.Restarts))
	v.Count("concurrent_write_merge_steps", int64(r.ConcSteps))
	v.Count("deliveries_with_a_failed_fetch", int64(r.FaultyFetches))
	v.Count("hole_then_heal_steps", int64(r.HoleHeals))
	v.Count("wire_messages", int64(r.E.W.WireLen()))
	v.Sig = r.scriptSig(steps) + fw.HashSig(routes)
	v.Trace = r.Trace
	if len(v.Trace) > 120 {
		v.Trace = v.Trace[len(v.Trace)-120:]
	}
	switch {
	case r.failed != nil:
		v.Status = fw.Violated
		v.Key = r.failed.Key
		v.What = r.failed.What
		v.NonTrivial = true
	case r.watchdog:
		v.Status = fw.Inconclusive
		v.What = fmt.Sprintf("rest not reached: pending=%v", r.E.H.Detail())
	default:
		v.Status = fw.Held
		v.NonTrivial = nontrivial()
		v.Sample = map[string]interface{}{"type": r.Cfg.Type, "peers": len(r.Peers), "steps": stepStrings(steps), "routes": routes, "entries": len(r.Universe), "comparisons": r.Compared}
	}
	return v
}

// c01Routes adds observer replicas that receive the entries by other routes
// and runs a final comparison of all replicas.
func c01Routes(r *Runner, rng *rand.Rand) []string {
	var routes []string
	w := r.E.W
	// route: exchange on join — a fresh peer opens the database late
	late, err := w.AddPeer(sim.PeerOpts{OnDisk: true})
	if err == nil {
		r.Peers = append(r.Peers, late)
		if err := r.E.OpenOn(r.DB, late); err == nil {
			routes = append(routes, "exchange-on-join")
		}
	}
	if !r.Converge() {
		return routes
	}
	r.Checkpoint("converged")
	if r.failed != nil {
		return routes
	}
	// route: manual Sync of shuffled, batched, duplicated entries (heads and
	// non-heads) on a replica that does not subscribe to pubsub at all
	obs, err := w.AddPeer(sim.PeerOpts{OnDisk: true})
	if err == nil {
		f := false
		ctx, cancel := context.WithTimeout(bg, 20*time.Second)
		s, err := obs.DB.Open(ctx, r.DB.Addr, &iface.CreateDBOptions{Replicate: &f})
		cancel()
		if err == nil {
			obs.Track(s)
			r.Peers = append(r.Peers, obs)
			r.DB.Stores[obs.Idx] = s
			src := r.store(0)
			all := src.OpLog().Values().Slice()
			heads := headsOf(src)
			var feed []ipfslog.Entry
			for _, i := range rng.Perm(len(all)) {
				if rng.Intn(3) == 0 {
					feed = append(feed, all[i].Copy())
				}
			}
			for _, h := range heads {
				feed = append(feed, h.Copy())
				if rng.Intn(2) == 0 {
					feed = append(feed, h.Copy())
				}
			}
			rng.Shuffle(len(feed), func(i, j int) { feed[i], feed[j] = feed[j], feed[i] })
			for len(feed) > 0 {
				n := 1 + rng.Intn(3)
				if n > len(feed) {
					n = len(feed)
				}
				_ = s.Sync(bg, feed[:n])
				feed = feed[n:]
				if rng.Intn(2) == 0 {
					r.settle()
				}
			}
			r.settle()
			// heads last, in case the shuffled order ended with non-heads
			_ = s.Sync(bg, cloneHeads(heads))
			r.settle()
			routes = append(routes, "manual-sync-shuffled")
		}
	}
	// route: load from disk — restart an on-disk replica
	if late != nil && late.Running() {
		if err := r.Restart(late.Idx); err == nil {
			routes = append(routes, "load-from-disk")
		} else {
			r.logf("restart late: %v", err)
		}
		r.settle()
	}
	// route: snapshot — save on a replica, reload it into a fresh instance with LoadFromSnapshot
	if late != nil && late.Running() && r.failed == nil {
		st := r.store(late.Idx)
		sctx, scancel := context.WithTimeout(bg, 30*time.Second)
		_, serr := basestore.SaveSnapshot(sctx, st)
		scancel()
		if serr == nil {
			late.Stop()
			r.settle()
			if err := late.Start(); err == nil {
				if err := r.E.OpenOn(r.DB, late); err == nil {
					lctx, lcancel := context.WithTimeout(bg, 30*time.Second)
					if err := r.store(late.Idx).LoadFromSnapshot(lctx); err == nil {
						routes = append(routes, "snapshot")
					} else {
						r.logf("LoadFromSnapshot: %v (C13's business)", err)
						_ = r.store(late.Idx).Load(bg, -1)
					}
					lcancel()
				}
			}
			delete(r.prevSnap, late.Idx)
			r.settle()
		}
	}
	r.Checkpoint("routes")
	// report replicas that never received everything (C02's business)
	full := len(r.Universe)
	for i, p := range r.Peers {
		if p.Running() && r.store(i) != nil && r.store(i).OpLog().Len() != full {
			r.V.Count("observers_incomplete", 1)
		}
	}
	return routes
}
