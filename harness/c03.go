package main

import (
	"context"
	"fmt"
	"math/rand"
	"sort"
	"strings"
	"time"

	ipfslog "berty.tech/go-ipfs-log"
	"berty.tech/go-ipfs-log/entry"
	idp "berty.tech/go-ipfs-log/identityprovider"
	logio "berty.tech/go-ipfs-log/io"
	"berty.tech/go-orbit-db/accesscontroller"
	acorbit "berty.tech/go-orbit-db/accesscontroller/orbitdb"
	"berty.tech/go-orbit-db/accesscontroller/simple"
	"berty.tech/go-orbit-db/address"
	"berty.tech/go-orbit-db/iface"
	"berty.tech/go-orbit-db/stores/documentstore"
	"berty.tech/go-orbit-db/stores/eventlogstore"
	"berty.tech/go-orbit-db/stores/kvstore"
	orbitutils "berty.tech/go-orbit-db/utils"
	cid "github.com/ipfs/go-cid"
	ds "github.com/ipfs/go-datastore"
	dsync "github.com/ipfs/go-datastore/sync"

	"verifharness/fw"
	"verifharness/sim"
)

func init() {
	fw.Register(&fw.Property{
		ID:    "C03",
		Level: "exploration",
		Rule: "ENUMERATED matrix: write list {creator default, explicit [creator], explicit [creator, replica], empty->default, wildcard (control)} x access controller {ipfs via Create/Open; simple and orbitdb via their public constructors on a store built with the public store constructor} x author {honest non-writer, copied writer id, copied identity block with victim key, copied identity block with own key, copied id and key with foreign identity signatures} x route {local write call, local write after an Open during which the k-th needed block (k=1..3) did not arrive before the deadline, local write on a database opened with an options value previously used to open another database, announced head, exchange on connect, manual Sync, ancestor via next of a colluding writer's head, ancestor via refs} x store type, with the forged entry at a PRNG position among valid heads; thorough repeats with 5 seeds of surrounding history. Each cell: forged entry delivered to a replica holding honest entries, then an honest marker write through the same path must take effect, then the oracle, and again after the replica was closed, reopened and loaded from its cached heads. Two further families: databases whose write-list block was published by hand ([], another id, [*]) and opened by a peer that is not in it; ONE instance opening three databases governed by manifest-less simple controllers with the write lists [P], [Q], [*] in three orders, P writing to the [Q] database. " +
			"distinct = cell (list, controller, author kind, route, store type, position); non-trivial = the forged entry was really delivered on the route (wire / call observed) and the marker took effect",
		Assumptions: []string{"ground truth about the true author comes from construction (the harness knows which key signed)", "hashing, CBOR and signature primitives of go-ipfs-log are trusted base", "revocation is not part of the property"},
		Cases:       c03Cases,
		Run:         c03Run,
		MinDistinct: map[string]int{"quick": 100, "thorough": 300},
		Batch:       12,
		Explain:     "oracle: an entry whose true author is not in a non-wildcard write list is never in any replica's log (GetEntries, Values, Get) nor view; a refused local write returns an error and leaves log, heads, cached heads and view unchanged. Control: with the wildcard list the same non-writer entry must be accepted (else the toolkit, not the code, is at fault -> inconclusive).",
	})
}

var c03Lists = []string{"default", "creator", "creator+replica", "empty", "wildcard"}
var c03Routes = []string{"local-write", "local-write-after-open-missing-block-1", "local-write-after-open-missing-block-2", "local-write-after-open-missing-block-3", "local-write-reused-options", "announce", "exchange", "sync", "ancestor-next", "ancestor-refs"}

func c03Cases(tier string, seed int64) []fw.Case {
	var out []fw.Case
	idx := 0
	reps := 1
	if tier == "thorough" {
		reps = 5
	}
	rng := rand.New(rand.NewSource(seed*2654435761 + 3))
	for rep := 0; rep < reps; rep++ {
		for _, ac := range []string{"ipfs", "simple", "orbitdb"} {
			for li, list := range c03Lists {
				for _, kind := range forgeKinds {
					for ri, route := range c03Routes {
						if ac != "ipfs" && (route == "announce" || route == "exchange") {
							continue // reduced matrix: store built with the public constructor, no pubsub
						}
						if ac != "ipfs" && (list == "empty" || list == "default") {
							continue
						}
						if strings.HasPrefix(route, "local-write") && kind != fNonWriter {
							continue // a local call cannot forge author fields
						}
						if (strings.HasPrefix(route, "local-write-after") || route == "local-write-reused-options") && (ac != "ipfs" || list == "wildcard") {
							continue
						}
						if list == "wildcard" && kind != fNonWriter {
							continue // control only
						}
						typ := storeTypes[(li+ri+idx)%3]
						out = append(out, fw.Case{Idx: idx, Seed: rng.Int63(), P: map[string]interface{}{
							"ac": ac, "list": list, "kind": kind, "route": route, "type": typ, "pos": rng.Intn(3), "rep": rep,
						}})
						idx++
					}
				}
			}
		}
		// databases whose access-controller blocks were published by hand (or by another implementation):
		// the stored write list is taken as it is
		for _, stored := range []string{"empty", "other", "wildcard"} {
			for _, typ := range storeTypes {
				out = append(out, fw.Case{Idx: idx, Seed: rng.Int63(), Kind: "published", P: map[string]interface{}{"stored": stored, "type": typ, "rep": rep}})
				idx++
			}
		}
		// several databases governed by manifest-less `simple` controllers (the write list is given by
		// whoever opens the database) on ONE instance, with different lists
		for _, order := range []string{"allowed-first", "refused-first", "wildcard-first"} {
			for _, typ := range storeTypes {
				out = append(out, fw.Case{Idx: idx, Seed: rng.Int63(), Kind: "simple-instance", P: map[string]interface{}{"order": order, "type": typ, "rep": rep}})
				idx++
			}
		}
	}
	return out
}

// c03Published opens a database whose write list block was published as given and checks that the
// opener, who is not in it, cannot write (and can under the wildcard).
func c03Published(c fw.Case) fw.Verdict {
	e := NewEnv()
	defer e.Close()
	v := fw.Verdict{}
	stored, typ := c.Str("stored", "empty"), c.Str("type", tEvent)
	v.Sig = fw.HashSig("published", stored, typ)
	P, err := e.W.AddPeer(sim.PeerOpts{})
	if err != nil {
		return fw.Verdict{Status: fw.Inconclusive, What: err.Error()}
	}
	other := "02aaaaaaaaaaaaaaaaaaaaaaaaaaaaaaaaaaaaaaaaaaaaaaaaaaaaaaaaaaaaaaaa"
	listJSON := map[string]string{"empty": `[]`, "other": `["` + other + `"]`, "wildcard": `["*"]`}[stored]
	listCid, err := logio.WriteCBOR(bg, P.API, map[string]interface{}{"write": listJSON}, nil)
	if err != nil {
		return fw.Verdict{Status: fw.Inconclusive, What: "publish list: " + err.Error()}
	}
	acCid, err := accesscontroller.CreateManifest(bg, P.API, "ipfs", accesscontroller.NewManifestParams(listCid, false, "ipfs"))
	if err != nil {
		return fw.Verdict{Status: fw.Inconclusive, What: "publish controller manifest: " + err.Error()}
	}
	name := "published-" + stored
	dbCid, err := orbitutils.CreateDBManifest(bg, P.API, name, typ, acCid.String())
	if err != nil {
		return fw.Verdict{Status: fw.Inconclusive, What: "publish database manifest: " + err.Error()}
	}
	addr := "/orbitdb/" + dbCid.String() + "/" + name
	ctx, cancel := context.WithTimeout(bg, 30*time.Second)
	defer cancel()
	s, err := P.DB.Open(ctx, addr, &iface.CreateDBOptions{})
	if err != nil {
		return fw.Verdict{Status: fw.Inconclusive, What: "open: " + err.Error()}
	}
	P.Track(s)
	got, _ := s.AccessController().GetAuthorizedByRole("write")
	_, werr := ApplyOp(bg, s, honestOp(typ, 1))
	e.W.Settle()
	v.Count("published_write_list_checks", 1)
	v.NonTrivial = true
	switch stored {
	case "wildcard":
		if werr != nil {
			return fw.Verdict{Status: fw.Violated, Key: "published-list/wildcard-refused", NonTrivial: true, Sig: v.Sig, What: "a database published with the write list [*] refuses the opener's write: " + werr.Error()}
		}
	default:
		if werr == nil || s.OpLog().Len() != 0 {
			return fw.Verdict{Status: fw.Violated, Key: "local-write-by-non-writer-accepted/published-" + stored, NonTrivial: true, Sig: v.Sig,
				What: fmt.Sprintf("a database whose stored write list is %s was opened by a peer that is not in it; the store reports the write list %v and the peer's write was accepted (log length %d)", listJSON, got, s.OpLog().Len())}
		}
	}
	v.Status = fw.Held
	v.Sample = map[string]interface{}{"route": "published", "stored_list": listJSON, "type": typ, "reported_list": got}
	return v
}

// c03SimpleInstance: one instance opens three databases whose `simple` controllers carry different write
// lists ([P], [Q], [*]), in a given order; P must be refused on the [Q] database whatever it opened before,
// and Q's genuine entry must still get in there.
func c03SimpleInstance(c fw.Case) fw.Verdict {
	e := NewEnv()
	defer e.Close()
	v := fw.Verdict{}
	order, typ := c.Str("order", "allowed-first"), c.Str("type", tEvent)
	v.Sig = fw.HashSig("simple-instance", order, typ)
	P, err := e.W.AddPeer(sim.PeerOpts{})
	if err != nil {
		return fw.Verdict{Status: fw.Inconclusive, What: err.Error()}
	}
	Q, err := e.W.AddPeer(sim.PeerOpts{})
	if err != nil {
		return fw.Verdict{Status: fw.Inconclusive, What: err.Error()}
	}
	idP, idQ := P.DB.Identity().ID, Q.DB.Identity().ID
	simple := func(list ...string) accesscontroller.ManifestParams {
		return accesscontroller.NewSimpleManifestParams("simple", map[string][]string{"write": list})
	}
	ctx, cancel := context.WithTimeout(bg, 60*time.Second)
	defer cancel()
	// Q creates the database only Q may write to
	f := false
	sQ, err := Q.DB.Create(ctx, "simple-q", typ, &iface.CreateDBOptions{AccessController: simple(idQ), Replicate: &f})
	if err != nil {
		return fw.Verdict{Status: fw.Inconclusive, What: "create by Q: " + err.Error()}
	}
	Q.Track(sQ)
	opQ, err := ApplyOp(bg, sQ, honestOp(typ, 1))
	if err != nil {
		return fw.Verdict{Status: fw.Inconclusive, What: "Q's own write: " + err.Error()}
	}
	var sOwn, sRef, sWild iface.Store
	open := map[string]func() error{
		"own": func() (err error) {
			sOwn, err = P.DB.Create(ctx, "simple-p", typ, &iface.CreateDBOptions{AccessController: simple(idP), Replicate: &f})
			return
		},
		"refused": func() (err error) {
			sRef, err = P.DB.Open(ctx, sQ.Address().String(), &iface.CreateDBOptions{AccessController: simple(idQ), Replicate: &f})
			return
		},
		"wild": func() (err error) {
			sWild, err = P.DB.Create(ctx, "simple-w", typ, &iface.CreateDBOptions{AccessController: simple("*"), Replicate: &f})
			return
		},
	}
	seq := map[string][]string{"allowed-first": {"own", "refused", "wild"}, "refused-first": {"refused", "own", "wild"}, "wildcard-first": {"wild", "refused", "own"}}[order]
	for _, k := range seq {
		if err := open[k](); err != nil {
			return fw.Verdict{Status: fw.Inconclusive, What: "open " + k + ": " + err.Error()}
		}
	}
	for _, s := range []iface.Store{sOwn, sRef, sWild} {
		P.Track(s)
	}
	v.NonTrivial = true
	v.Count("simple_instance_checks", 1)
	got, _ := sRef.AccessController().GetAuthorizedByRole("write")
	_, werr := ApplyOp(bg, sRef, honestOp(typ, 2))
	e.W.Settle()
	if werr == nil || sRef.OpLog().Len() != 0 {
		return fw.Verdict{Status: fw.Violated, Key: "local-write-by-non-writer-accepted/simple-controller-second-database", NonTrivial: true, Sig: v.Sig,
			What: fmt.Sprintf("instance opened %v; the database opened with the simple controller's write list [%s] reports the list %v and accepted a write by %s, who is not in it (log length %d)", seq, short(idQ), got, short(idP), sRef.OpLog().Len())}
	}
	// the genuine writer's entry still gets in by manual sync, and P's own databases accept P
	_ = sRef.Sync(ctx, cloneHeads(headsOf(sQ)))
	e.W.Flush()
	if !logHas(sRef, opQ.GetEntry().GetHash()) {
		return fw.Verdict{Status: fw.Inconclusive, What: "marker: the authorised writer's entry did not reach the replica"}
	}
	for name, s := range map[string]iface.Store{"own list": sOwn, "wildcard": sWild} {
		if _, err := ApplyOp(bg, s, honestOp(typ, 3)); err != nil {
			return fw.Verdict{Status: fw.Inconclusive, What: "control write on the " + name + " database refused: " + err.Error()}
		}
	}
	v.Status = fw.Held
	v.Sample = map[string]interface{}{"route": "simple-instance", "order": seq, "type": typ, "reported_list": got}
	return v
}

// buildStore constructs a store with the public constructor and the given
// access controller (reduced matrix for simple / orbitdb controllers).
func buildStore(p *sim.Peer, typ string, addr address.Address, ac accesscontroller.Interface, ident *idp.Identity) (iface.Store, error) {
	f := false
	opts := &iface.NewStoreOptions{
		AccessController: ac,
		Replicate:        &f,
		Cache:            dsync.MutexWrap(ds.NewMapDatastore()),
		CacheDestroy:     func() error { return nil },
		IO:               cborIO(),
		EventBus:         p.W.H.NewBus(),
	}
	if ident == nil {
		ident = p.DB.Identity()
	}
	switch typ {
	case tKV:
		return kvstore.NewOrbitDBKeyValue(p.API, ident, addr, opts)
	case tDocs:
		return documentstore.NewOrbitDBDocumentStore(p.API, ident, addr, opts)
	default:
		return eventlogstore.NewOrbitDBEventLogStore(p.API, ident, addr, opts)
	}
}

type c03World struct {
	e       *Env
	C, R, N *sim.Peer // creator/authorised writer, replica under test, honest non-writer
	A       *Adv
	typ     string
	addr    string
	sC, sR  iface.Store
	sN      iface.Store
	allowed map[string]bool
	wild    bool
}

func c03Run(c fw.Case) fw.Verdict {
	if c.Kind == "simple-instance" {
		return c03SimpleInstance(c)
	}
	if c.Kind == "published" {
		return c03Published(c)
	}
	e := NewEnv()
	defer e.Close()
	v := fw.Verdict{}
	rng := rand.New(rand.NewSource(c.Seed))
	ac, list, kind, route, typ := c.Str("ac", "ipfs"), c.Str("list", "default"), c.Str("kind", fNonWriter), c.Str("route", "sync"), c.Str("type", tKV)
	v.Sig = fw.HashSig(ac, list, kind, route, typ, c.Int("pos", 0))
	w := &c03World{e: e, typ: typ}
	var err error
	mk := func() *sim.Peer {
		p, er := e.W.AddPeer(sim.PeerOpts{})
		if er != nil {
			err = er
		}
		return p
	}
	w.C, w.N = mk(), mk()
	if p, er := e.W.AddPeer(sim.PeerOpts{OnDisk: true}); er != nil {
		err = er
	} else {
		w.R = p
	}
	if err != nil {
		return fw.Verdict{Status: fw.Inconclusive, What: "setup: " + err.Error()}
	}
	w.A, err = NewAdv(e.W, "mallory")
	if err != nil {
		return fw.Verdict{Status: fw.Inconclusive, What: "setup adv: " + err.Error()}
	}
	idC, idR := w.C.DB.Identity().ID, w.R.DB.Identity().ID
	var writers []string
	switch list {
	case "default":
		writers = nil
	case "creator":
		writers = []string{idC}
	case "creator+replica":
		writers = []string{idC, idR}
	case "empty":
		writers = []string{}
	case "wildcard":
		writers = []string{"*"}
		w.wild = true
	}
	w.allowed = map[string]bool{idC: true}
	if list == "creator+replica" {
		w.allowed[idR] = true
	}

	if ac == "ipfs" {
		db, err := e.CreateDB("c03", typ, w.C, []*sim.Peer{w.R, w.N}, writers)
		if err != nil {
			return fw.Verdict{Status: fw.Inconclusive, What: "create: " + err.Error()}
		}
		w.addr = db.Addr
		w.sC, w.sR, w.sN = db.Stores[w.C.Idx], db.Stores[w.R.Idx], db.Stores[w.N.Idx]
		// the controller must report the list given at creation
		got, _ := w.sR.AccessController().GetAuthorizedByRole("write")
		sort.Strings(got)
		want := append([]string{}, writers...)
		if len(want) == 0 {
			want = []string{idC}
		}
		sort.Strings(want)
		if !eqStrings(got, want) {
			return fw.Verdict{Status: fw.Violated, Key: "write-list-not-as-created", NonTrivial: true, Sig: v.Sig,
				What: fmt.Sprintf("replica resolved write list %v, created with %v", got, want)}
		}
	} else {
		// reduced matrix: the same address everywhere, controller built by its public constructor per peer
		a, err := w.C.DB.DetermineAddress(bg, "c03", typ, nil)
		if err != nil {
			return fw.Verdict{Status: fw.Inconclusive, What: "address: " + err.Error()}
		}
		w.addr = a.String()
		mkAC := func(p *sim.Peer) (accesscontroller.Interface, error) {
			params := accesscontroller.NewEmptyManifestParams()
			params.SetAccess("write", writers)
			if ac == "simple" {
				return simple.NewSimpleAccessController(bg, nil, params)
			}
			params.SetName("c03ac")
			params.SetAccess("admin", []string{p.DB.Identity().ID})
			ctl, err := acorbit.NewOrbitDBAccessController(bg, p.DB, params)
			if err != nil {
				return nil, err
			}
			for _, id := range writers {
				if err := ctl.Grant(bg, "write", id); err != nil {
					return nil, fmt.Errorf("grant: %w", err)
				}
			}
			return ctl, nil
		}
		for _, x := range []struct {
			p *sim.Peer
			s *iface.Store
		}{{w.C, &w.sC}, {w.R, &w.sR}, {w.N, &w.sN}} {
			ctl, err := mkAC(x.p)
			if err != nil {
				return fw.Verdict{Status: fw.Skipped, What: "controller cannot be built with its public constructor: " + err.Error(), Sig: v.Sig}
			}
			s, err := buildStore(x.p, typ, a, ctl, nil)
			if err != nil {
				return fw.Verdict{Status: fw.Inconclusive, What: "store: " + err.Error()}
			}
			x.p.Track(s)
			*x.s = s
			st := s
			e.OnClose(func() { _ = st.Close() })
		}
		if ac == "orbitdb" {
			// every controller instance has its own admin (the opener); only the explicit write list is judged
			w.allowed = map[string]bool{}
			for _, id := range writers {
				w.allowed[id] = true
			}
			// admins may write on their own replica: the replica under test's own id is allowed there
			w.allowed[idR] = true
			if kind != fNonWriter || route == "local-write" {
				// impersonating C is judged only if C is a writer on R's controller
			}
		}
	}

	// honest history by C, replicated to R
	nh := 2 + rng.Intn(3)
	for i := 0; i < nh; i++ {
		if _, err := ApplyOp(bg, w.sC, honestOp(typ, i)); err != nil {
			return fw.Verdict{Status: fw.Inconclusive, What: "honest write: " + err.Error()}
		}
	}
	if !w.syncHonest(&v) {
		return fw.Verdict{Status: fw.Inconclusive, What: "honest history did not replicate", Sig: v.Sig}
	}
	base := TakeSnap(typ, w.sR, w.R.Idx)
	baseCache := cacheHeads(w.sR)

	victim := w.C.DB.Identity()
	if !w.allowed[victim.ID] && !w.wild {
		return fw.Verdict{Status: fw.Skipped, What: "impersonated identity is not a writer in this cell", Sig: v.Sig}
	}
	maxT := 0
	var headCids []cid.Cid
	for _, h := range headsOf(w.sC) {
		headCids = append(headCids, h.GetHash())
		if t := h.GetClock().GetTime(); t > maxT {
			maxT = t
		}
	}

	// ---- the attack ----
	var forged *entry.Entry
	delivered := false
	if strings.HasPrefix(route, "local-write-after-open-missing-block-") {
		// a fresh non-writer opens the address while the k-th block it needs does not
		// arrive before the deadline: Open may fail; if it succeeds the peer must still
		// be treated as a non-writer
		k := int(route[len(route)-1] - '0')
		F, err := e.W.AddPeer(sim.PeerOpts{})
		if err != nil {
			return fw.Verdict{Status: fw.Inconclusive, What: err.Error()}
		}
		n := 0
		e.W.SetGate(func(ctx context.Context, to, from *sim.Peer, _ cid.Cid) error {
			if to != F {
				return nil
			}
			n++
			if n == k {
				<-ctx.Done()
				return ctx.Err()
			}
			return nil
		})
		octx, ocancel := context.WithTimeout(bg, 400*time.Millisecond)
		sF, oerr := F.DB.Open(octx, w.addr, &iface.CreateDBOptions{})
		ocancel()
		e.W.SetGate(nil)
		v.Count("faulty_opens", 1)
		v.NonTrivial = true
		if oerr != nil {
			v.Count("faulty_opens_refused", 1)
			v.Status = fw.Held
			v.Sample = map[string]interface{}{"ac": ac, "list": list, "route": route, "open": "refused: " + oerr.Error()}
			return v
		}
		F.Track(sF)
		before := TakeSnap(typ, sF, F.Idx)
		_, werr := ApplyOp(bg, sF, honestOp(typ, 100))
		e.W.Flush()
		after := TakeSnap(typ, sF, F.Idx)
		ownF := false
		for _, h := range after.Order {
			if after.Entries[h].Author == F.DB.Identity().ID {
				ownF = true
			}
		}
		if werr == nil || ownF {
			return fw.Verdict{Status: fw.Violated, Key: "local-write-by-non-writer-accepted/after-faulty-open", NonTrivial: true, Sig: v.Sig,
				What: fmt.Sprintf("a non-writer opened the database while the %d-th block needed by Open did not arrive; Open succeeded and its local write was accepted (error=%v, log %d -> %d entries)", k, werr, len(before.Order), len(after.Order))}
		}
		if s := TakeSnap(typ, w.sR, w.R.Idx); !eqStrings(s.Order, base.Order) {
			return fw.Verdict{Status: fw.Violated, Key: "refused-local-write-replicated/ac=" + ac, What: "entries of a refused local write appeared on another replica", NonTrivial: true, Sig: v.Sig}
		}
		v.Status = fw.Held
		v.Sample = map[string]interface{}{"ac": ac, "list": list, "route": route, "open": "succeeded, write refused"}
		return v
	}
	if route == "local-write-reused-options" {
		// a fresh non-writer first opens ANOTHER database in which it is a writer, then this one,
		// with the same CreateDBOptions value (as an application might)
		F, err := e.W.AddPeer(sim.PeerOpts{})
		if err != nil {
			return fw.Verdict{Status: fw.Inconclusive, What: err.Error()}
		}
		other, err := e.CreateDB("c03-other", typ, w.C, nil, []string{idC, F.DB.Identity().ID})
		if err != nil {
			return fw.Verdict{Status: fw.Inconclusive, What: "create other: " + err.Error()}
		}
		opts := &iface.CreateDBOptions{}
		octx, ocancel := context.WithTimeout(bg, 20*time.Second)
		s1, err := F.DB.Open(octx, other.Addr, opts)
		if err != nil {
			ocancel()
			return fw.Verdict{Status: fw.Inconclusive, What: "open other: " + err.Error()}
		}
		F.Track(s1)
		sF, err := F.DB.Open(octx, w.addr, opts)
		ocancel()
		if err != nil {
			return fw.Verdict{Status: fw.Inconclusive, What: "open with reused options: " + err.Error()}
		}
		F.Track(sF)
		got, _ := sF.AccessController().GetAuthorizedByRole("write")
		before := TakeSnap(typ, sF, F.Idx)
		_, werr := ApplyOp(bg, sF, honestOp(typ, 100))
		e.W.Flush()
		after := TakeSnap(typ, sF, F.Idx)
		v.Count("local_write_attempts", 1)
		v.NonTrivial = true
		own := false
		for _, h := range after.Order {
			if after.Entries[h].Author == F.DB.Identity().ID {
				own = true
			}
		}
		_ = before
		if werr == nil || own {
			return fw.Verdict{Status: fw.Violated, Key: "local-write-by-non-writer-accepted/reused-options", NonTrivial: true, Sig: v.Sig,
				What: fmt.Sprintf("a peer that opened another database first and then this one with the same options value wrote to this database although it is not in its write list (resolved write list %v, error=%v)", got, werr)}
		}
		v.Status = fw.Held
		v.Sample = map[string]interface{}{"ac": ac, "list": list, "route": route, "resolved_write_list": got}
		return v
	}
	switch route {
	case "local-write":
		before := TakeSnap(typ, w.sN, w.N.Idx)
		beforeCache := cacheHeads(w.sN)
		_, err := ApplyOp(bg, w.sN, honestOp(typ, 100))
		e.W.Flush()
		after := TakeSnap(typ, w.sN, w.N.Idx)
		v.Count("local_write_attempts", 1)
		delivered = true
		if w.wild {
			if err != nil {
				return fw.Verdict{Status: fw.Violated, Key: "wildcard-write-refused", What: "write refused under wildcard list: " + err.Error(), NonTrivial: true, Sig: v.Sig}
			}
		} else {
			if err == nil {
				return fw.Verdict{Status: fw.Violated, Key: "local-write-by-non-writer-accepted/ac=" + ac, What: "a store whose identity is not in the write list accepted a local write", NonTrivial: true, Sig: v.Sig}
			}
			if !eqStrings(before.Order, after.Order) || !eqStrings(before.Heads, after.Heads) || before.View != after.View || beforeCache != cacheHeads(w.sN) {
				return fw.Verdict{Status: fw.Violated, Key: "refused-local-write-changed-state/ac=" + ac, What: fmt.Sprintf("refused write changed the replica: log %d->%d entries, cache heads changed=%v", len(before.Order), len(after.Order), beforeCache != cacheHeads(w.sN)), NonTrivial: true, Sig: v.Sig}
			}
			// and nothing reached R
			if s := TakeSnap(typ, w.sR, w.R.Idx); !eqStrings(s.Order, base.Order) {
				return fw.Verdict{Status: fw.Violated, Key: "refused-local-write-replicated/ac=" + ac, What: "entries of a refused local write appeared on another replica", NonTrivial: true, Sig: v.Sig}
			}
		}
	default:
		forged, err = w.A.Forge(kind, w.addr, opPayload(typ, 7, "a"), headCids, nil, maxT+1, victim)
		if err != nil {
			return fw.Verdict{Status: fw.Inconclusive, What: "forge: " + err.Error()}
		}
		// valid companions around the forged head at position pos
		var companions []*entry.Entry
		for i := 0; i < 2; i++ {
			he, err := HonestEntry(w.C, w.addr, opPayload(typ, 20+i, "b"), headCids, nil, maxT+1+i)
			if err != nil {
				return fw.Verdict{Status: fw.Inconclusive, What: "companion: " + err.Error()}
			}
			companions = append(companions, he)
		}
		pos := c.Int("pos", 0)
		var list []*entry.Entry
		list = append(list, companions[:minInt(pos, 2)]...)
		list = append(list, forged)
		list = append(list, companions[minInt(pos, 2):]...)
		switch route {
		case "announce":
			delivered = e.W.InjectPub(w.A.P, w.R, w.addr, HeadsMsg(w.addr, list...))
		case "exchange":
			delivered = e.W.InjectDirect(w.A.P, w.R, HeadsMsg(w.addr, list...))
		case "sync":
			hs := make([]ipfslog.Entry, len(list))
			for i := range list {
				hs[i] = list[i]
			}
			ctx, cancel := context.WithTimeout(bg, 30*time.Second)
			_ = w.sR.Sync(ctx, hs)
			defer cancel()
			delivered = true
		case "ancestor-next", "ancestor-refs":
			var next, refs []cid.Cid
			if route == "ancestor-next" {
				next = append([]cid.Cid{forged.Hash}, headCids...)
			} else {
				next = headCids
				refs = []cid.Cid{forged.Hash}
			}
			col, err := HonestEntry(w.C, w.addr, opPayload(typ, 30, "c"), next, refs, maxT+2)
			if err != nil {
				return fw.Verdict{Status: fw.Inconclusive, What: "colluder: " + err.Error()}
			}
			ctx, cancel := context.WithTimeout(bg, 30*time.Second)
			_ = w.sR.Sync(ctx, []ipfslog.Entry{col})
			defer cancel()
			delivered = true
		}
		v.Count("forged_entries_delivered", 1)
	}
	if !e.W.Flush() {
		return fw.Verdict{Status: fw.Inconclusive, What: "rest not reached after attack", Sig: v.Sig}
	}

	if forged != nil && !w.wild && ac == "ipfs" {
		inLog := func(s iface.Store) bool {
			if logHas(s, forged.Hash) {
				return true
			}
			for _, en := range s.OpLog().Values().Slice() {
				if en.GetHash().Equals(forged.Hash) {
					return true
				}
			}
			return false
		}
		// the same must hold after the replica restarts and loads its log from its cached heads
		if ac == "ipfs" {
			w.R.Stop()
			e.W.Settle()
			if err := w.R.Start(); err == nil {
				octx, ocancel := context.WithTimeout(bg, 20*time.Second)
				s2, err := w.R.DB.Open(octx, w.addr, &iface.CreateDBOptions{})
				ocancel()
				if err == nil {
					w.R.Track(s2)
					w.sR = s2
					_ = s2.Load(bg, -1)
					e.W.Flush()
					v.Count("membership_checks_after_restart", 1)
					sn2 := TakeSnap(typ, s2, w.R.Idx)
					if inLog(s2) {
						return fw.Verdict{Status: fw.Violated, Key: fmt.Sprintf("forgery=%s/ac=%s/after-restart", kind, ac), NonTrivial: true, Sig: v.Sig,
							What: fmt.Sprintf("after the replica was closed, reopened and loaded, the entry signed by an identity outside the write list (forgery %s, route %s) is in its log", kind, route)}
					}
					for _, h := range sn2.Order {
						if !w.allowed[sn2.Entries[h].Author] {
							return fw.Verdict{Status: fw.Violated, Key: fmt.Sprintf("forgery=%s/ac=%s/after-restart", kind, ac), NonTrivial: true, Sig: v.Sig,
								What: fmt.Sprintf("after restart and load the log contains an entry claiming author %s, not in the write list", sn2.Entries[h].Author)}
						}
					}
				}
			}
		}
	}
	// ---- marker: an honest write through the same path must take effect ----
	mop, err := ApplyOp(bg, w.sC, honestOp(typ, 200))
	if err != nil {
		return fw.Verdict{Status: fw.Inconclusive, What: "marker write: " + err.Error()}
	}
	markerHash := mop.GetEntry().GetHash()
	if !w.syncHonest(&v) {
		return fw.Verdict{Status: fw.Inconclusive, What: "rest not reached after marker", Sig: v.Sig}
	}
	markerOK := logHas(w.sR, markerHash)
	// negative verdicts about the marker are C10's business; here it only qualifies the case
	v.NonTrivial = delivered && markerOK
	if markerOK {
		v.Count("markers_effective", 1)
	}

	// ---- oracle ----
	if forged != nil {
		inLog := func(s iface.Store) bool {
			if logHas(s, forged.Hash) {
				return true
			}
			for _, en := range s.OpLog().Values().Slice() {
				if en.GetHash().Equals(forged.Hash) {
					return true
				}
			}
			return false
		}
		v.Count("membership_checks", 2)
		if w.wild {
			if kind == fNonWriter && route != "ancestor-refs" && !inLog(w.sR) {
				return fw.Verdict{Status: fw.Inconclusive, What: "control failed: a valid non-writer entry was not accepted under the wildcard list (toolkit suspect)", Sig: v.Sig}
			}
		} else {
			for _, s := range []iface.Store{w.sR, w.sC} {
				if inLog(s) {
					return fw.Verdict{Status: fw.Violated, Key: fmt.Sprintf("forgery=%s/ac=%s", kind, ac), NonTrivial: true, Sig: v.Sig,
						What: fmt.Sprintf("an entry really signed by an identity outside the write list (forgery %s, route %s, list %s) is in a replica's log", kind, route, list)}
				}
			}
			// view must be the replay of honest entries only
			sn := TakeSnap(typ, w.sR, w.R.Idx)
			if ModelView(typ, sn.Entries, sn.Order) != sn.View {
				return fw.Verdict{Status: fw.Violated, Key: fmt.Sprintf("forged-view/ac=%s", ac), NonTrivial: true, Sig: v.Sig, What: "view differs from the replay of the (honest) log after the attack"}
			}
			for _, h := range sn.Order {
				if !w.allowed[sn.Entries[h].Author] {
					return fw.Verdict{Status: fw.Violated, Key: fmt.Sprintf("forgery=%s/ac=%s", kind, ac), NonTrivial: true, Sig: v.Sig,
						What: fmt.Sprintf("log contains an entry claiming author %s, not in the write list", sn.Entries[h].Author)}
				}
			}
			_ = baseCache
		}
	}
	v.Status = fw.Held
	v.Sample = map[string]interface{}{"ac": ac, "list": list, "author": kind, "route": route, "type": typ, "honest_entries": len(base.Order), "marker_effective": markerOK}
	return v
}

func honestOp(typ string, n int) Op {
	switch typ {
	case tEvent:
		return Op{Kind: "add", Val: []byte(fmt.Sprintf("h%d", n))}
	case tKV:
		return Op{Kind: "put", Key: fmt.Sprintf("k%d", n%3), Val: []byte(fmt.Sprintf("h%d", n))}
	default:
		return Op{Kind: "put", Key: fmt.Sprintf("d%d", n%3), Docs: []Doc{{ID: fmt.Sprintf("d%d", n%3), N: n, Tag: "h"}}}
	}
}

// syncHonest brings C's honest entries to R: through the network when the
// stores replicate, else by manual Sync of C's heads.
func (w *c03World) syncHonest(v *fw.Verdict) bool {
	if !w.e.W.Flush() {
		return false
	}
	want := w.sC.OpLog().Heads().Slice()
	have := true
	for _, h := range want {
		if !logHas(w.sR, h.GetHash()) {
			have = false
		}
	}
	if have {
		return true
	}
	ctx, cancel := context.WithTimeout(bg, 30*time.Second)
	defer cancel()
	_ = w.sR.Sync(ctx, cloneHeads(want))
	return w.e.W.Flush()
}

func cacheHeads(s iface.Store) string {
	l, _ := s.Cache().Get(bg, ds.NewKey("_localHeads"))
	r, _ := s.Cache().Get(bg, ds.NewKey("_remoteHeads"))
	return string(l) + "|" + string(r)
}
