package main

import (
	"bytes"
	"fmt"
	"math/rand"
	"os"
	"sort"
	"strings"
	"sync"
	"sync/atomic"
	"time"

	"berty.tech/go-orbit-db/iface"
	cid "github.com/ipfs/go-cid"

	"verifharness/fw"
)

func init() {
	fw.Register(&fw.Property{
		ID:    "C06",
		Level: "exploration",
		Rule: "cases = PRNG histories of Put/Delete (repeated keys, deletes of absent keys, re-puts, empty and binary values, unicode and empty-string keys) by 1-4 writers with interleaved replication (random delivery, drops, duplicates, bursts, deliveries during which a block fetch fails and is retried by a later delivery) and steps where a local Put races the merge of an announcement on the same replica while a schedule-point handler at index.after-values holds one index rebuild until another has finished. The oracle runs after every step on every replica. In one history in three (and in every history that holds index rebuilds) one reader goroutine per replica queries it throughout; what a reader sees must only move forward: listings grow as subsequences, the states of a key are explained by entries of increasing rank in the reference total order. " +
			"distinct = hash(step script); non-trivial = >= 2 writers touched one key or a delete and a put of one key are both in the log",
		Assumptions: []string{"several goroutines calling Put on one replica are C17's case", "simulated network (see DESIGN 2.1)"},
		Cases:       func(tier string, seed int64) []fw.Case { return lwwCases(tier, seed, tKV, 60, 500) },
		Run:         func(c fw.Case) fw.Verdict { return lwwRun(c, tKV) },
		MinDistinct: map[string]int{"quick": 20, "thorough": 150},
		Batch:       8,
		Explain:     "oracle: All() and Get(k) for every key ever used equal the last-writer-wins replay of the replica's own Values() order; order extends happens-before (next+refs and what the writer had seen); cross-replica equality for equal sets.",
	})
	fw.Register(&fw.Property{
		ID:    "C07",
		Level: "exploration",
		Rule: "cases = PRNG histories mixing Put, PutBatch, PutAll and Delete on 4-6 overlapping mixed-case keys by 1-4 writers with interleaved replication and write/merge races (as C06); after every step on every replica the documents, every Get option combination over every key / case variant / 1-3 character substring, and a family of Query predicates are compared with the replay model; Delete of a key absent from the model must be refused and append nothing. In one history in three (and in every history that holds index rebuilds) one reader goroutine per replica queries it throughout; what a reader sees must only move forward: listings grow as subsequences, the states of a key are explained by entries of increasing rank in the reference total order. " +
			"distinct = hash(step script); non-trivial = a PutAll and a Put/Delete on the same key are both in the log",
		Assumptions: []string{"search keys contain no spaces (excluded by the property)", "simulated network"},
		Cases:       func(tier string, seed int64) []fw.Case { return lwwCases(tier, seed, tDocs, 60, 500) },
		Run:         func(c fw.Case) fw.Verdict { return lwwRun(c, tDocs) },
		MinDistinct: map[string]int{"quick": 20, "thorough": 150},
		Batch:       8,
		Explain:     "oracle: Query(true) multiset == replay of own log; Get(key,{ci,partial}) == model match set; Query predicates == filter of model; delete presence rule.",
	})
	fw.Register(&fw.Property{
		ID:    "C08",
		Level: "exploration",
		Rule: "cases = PRNG multi-writer event-log histories (2-4 writers, forks and merges) with random merge sequences and snapshot save / load-into-the-live-store steps; at every checkpoint on every replica: earlier listing is a subsequence of the later one, entries follow everything their writer had seen, writers' entries keep write order; at selected checkpoints all window queries are ENUMERATED: bound kind {none,gt,gte,lt,lte} x bound = every entry x amount {unset,0,1,2,len-1,len,len+3,-1,-7} via List and Stream, and Get(h) for every h. In one history in three (and in every history that holds index rebuilds) one reader goroutine per replica queries it throughout; what a reader sees must only move forward: listings grow as subsequences, the states of a key are explained by entries of increasing rank in the reference total order. " +
			"distinct = hash(step script); non-trivial = >= 2 writers and >= 4 entries and >= 50 window queries judged",
		Assumptions: []string{"bounds are entries of the log (hashes outside the log are excluded by the property)", "two bounds at once are exercised but not judged"},
		Cases: func(tier string, seed int64) []fw.Case {
			cs := lwwCases(tier, seed, tEvent, 40, 300)
			return append(cs, c08LoadCases(tier, seed, len(cs))...)
		},
		Run: func(c fw.Case) fw.Verdict {
			if c.Str("mode", "") == "load-race" {
				return c08LoadRun(c)
			}
			return lwwRun(c, tEvent)
		},
		MinDistinct: map[string]int{"quick": 15, "thorough": 100},
		Batch:       8,
		Explain:     "oracle: subsequence stability, writer-seen order, exact windows against the documented iterator contract written independently of query/read.",
	})
}

func lwwCases(tier string, seed int64, typ string, nq, nt int) []fw.Case {
	n := nq
	if tier == "thorough" {
		n = nt
	}
	rng := rand.New(rand.NewSource(seed*104729 + int64(len(typ))*31))
	var out []fw.Case
	for i := 0; i < n; i++ {
		out = append(out, fw.Case{Idx: i, Seed: rng.Int63(), P: map[string]interface{}{
			"peers":   2 + rng.Intn(3),
			"writers": 1 + rng.Intn(4),
			"steps":   15 + rng.Intn(46),
			"hold":    i%3 != 2,
		}})
	}
	return out
}

// holdIndex installs the stale-view schedule handler: the first index rebuild
// that arrives while `active` is set is held until another rebuild has
// completed (signalled by the after-index points) or a short timeout.
type indexHolder struct {
	mu      sync.Mutex
	active  bool
	held    chan struct{}
	Holds   int
	Overlap int
}

func (ih *indexHolder) install(e *Env) {
	e.H.SetPoint("index.after-values", func(name string, args []interface{}) {
		ih.mu.Lock()
		if !ih.active || ih.held != nil {
			ih.mu.Unlock()
			return
		}
		ch := make(chan struct{})
		ih.held = ch
		ih.Holds++
		ih.mu.Unlock()
		select {
		case <-ch:
			ih.mu.Lock()
			ih.Overlap++
			ih.mu.Unlock()
		case <-time.After(25 * time.Millisecond):
		}
		ih.mu.Lock()
		if ih.held == ch {
			ih.held = nil
		}
		ih.mu.Unlock()
	})
	rel := func(name string, args []interface{}) {
		ih.mu.Lock()
		if ih.held != nil {
			close(ih.held)
			ih.held = nil
		}
		ih.mu.Unlock()
	}
	e.H.SetPoint("write.after-index", rel)
	e.H.SetPoint("merge.after-index", rel)
}

func (ih *indexHolder) set(on bool) {
	ih.mu.Lock()
	ih.active = on
	ih.mu.Unlock()
}

func lwwRun(c fw.Case, typ string) fw.Verdict {
	e := NewEnv()
	defer e.Close()
	rng := rand.New(rand.NewSource(c.Seed))
	np := c.Int("peers", 3)
	nw := c.Int("writers", 2)
	if nw > np {
		nw = np
	}
	if typ == tEvent && nw < 2 {
		nw = 2
	}
	wr := make([]int, nw)
	for i := range wr {
		wr[i] = i
	}
	keys := []string{"a", "B", "ключ", ""}
	if typ == tDocs {
		keys = []string{"doc1", "Doc1", "DOC-2", "x.y_3", "ab", "aB"}[:4+rng.Intn(3)]
	}
	r := &Runner{E: e, Rng: rng, Cfg: ScenCfg{
		Type: typ, NPeers: np, Writers: wr, NSteps: c.Int("steps", 20), Keys: keys,
		WWrite: 40, WDeliver: 25, WDeliverAll: 4, WDrop: 5, WDup: 5, WSync: 4, WBurst: 6, WConc: 14, WCut: 2, WHeal: 3, WFaultyDeliver: 5, WHoleHeal: 4,
		CheckEvery: 1,
	}}
	ih := &indexHolder{}
	if c.Bool("hold") && typ != tEvent {
		ih.install(e)
		ih.set(true)
	}
	var wq *windowStats
	switch typ {
	case tKV:
		r.Checks = []func(*Runner, []*Snap, string) *Violation{oracleModel, oracleKVGet, oracleSameSet}
	case tDocs:
		r.Checks = []func(*Runner, []*Snap, string) *Violation{oracleModel, oracleDocsQueries, oracleSameSet}
	case tEvent:
		wq = &windowStats{}
		r.Cfg.CheckEvery = 2
		r.Cfg.WSnapshot = 6
		r.Checks = []func(*Runner, []*Snap, string) *Violation{oracleModel, oracleAppendOnly, oracleWriterOrder, wq.oracle, oracleSameSet}
	}
	if os.Getenv("VERIF_ONLY_READERS") != "" { // debugging aid: validates the reader monitor alone on a scratch break
		r.Checks = nil
	}
	if err := r.Setup(); err != nil {
		return fw.Verdict{Status: fw.Inconclusive, What: "setup: " + err.Error()}
	}
	steps := r.GenSteps(rng)
	// readers: an application thread queries every replica all the time; a query must never leave anything
	// behind that changes what later queries answer
	stopReaders := make(chan struct{})
	var rwg sync.WaitGroup
	var reads int64
	var mons []*readMon
	if c.Bool("hold") || c.Idx%3 == 0 {
		for i := range r.Peers {
			rwg.Add(1)
			mon := &readMon{typ: typ, peer: i}
			mons = append(mons, mon)
			go func(i int) {
				defer rwg.Done()
				for {
					select {
					case <-stopReaders:
						return
					default:
					}
					if r.Peers[i].Running() {
						if st := r.store(i); st != nil {
							_ = ViewOf(typ, st)
							mon.observe(st)
							atomic.AddInt64(&reads, 1)
						}
					}
					time.Sleep(50 * time.Microsecond)
				}
			}(i)
		}
	}
	r.Exec(steps)
	close(stopReaders)
	rwg.Wait()
	r.V.Count("concurrent_reader_queries", atomic.LoadInt64(&reads))
	for _, mon := range mons {
		r.V.Count("reader_state_changes_seen", int64(mon.Trans))
		if vio := mon.judge(r); vio != nil && r.failed == nil {
			r.fail(vio.Key, vio.What)
		}
	}
	if r.failed == nil && !r.watchdog {
		ih.set(false)
		if r.Converge() {
			if wq != nil {
				wq.full = true
			}
			r.Checkpoint("converged")
		}
	}
	r.V.Count("index_rebuilds_held", int64(ih.Holds))
	r.V.Count("index_rebuilds_overtaken_while_held", int64(ih.Overlap))
	return r.finish(steps, nil, func() bool {
		switch typ {
		case tEvent:
			writers := map[int]bool{}
			for _, w := range r.WriterOf {
				writers[w] = true
			}
			return len(writers) >= 2 && len(r.Universe) >= 4 && wq.judged >= 50
		case tKV:
			// two writers on one key, or delete and put of one key
			byKey := map[string]map[int]bool{}
			kinds := map[string]map[string]bool{}
			for h, e := range r.Universe {
				o, err := parseOp(e.Payload)
				if err != nil || o.Key == nil {
					continue
				}
				if byKey[*o.Key] == nil {
					byKey[*o.Key] = map[int]bool{}
					kinds[*o.Key] = map[string]bool{}
				}
				byKey[*o.Key][r.WriterOf[h]] = true
				kinds[*o.Key][o.Op] = true
			}
			for k := range byKey {
				if len(byKey[k]) >= 2 || (kinds[k]["PUT"] && kinds[k]["DEL"]) {
					return true
				}
			}
			return false
		default:
			inAll := map[string]bool{}
			single := map[string]bool{}
			for _, e := range r.Universe {
				o, err := parseOp(e.Payload)
				if err != nil {
					continue
				}
				if o.Op == "PUTALL" {
					for _, d := range o.Docs {
						inAll[d.Key] = true
					}
				} else if o.Key != nil {
					single[*o.Key] = true
				}
			}
			for k := range inAll {
				if single[k] {
					return true
				}
			}
			return false
		}
	})
}

// oracleKVGet: Get(k) for every key ever used equals the replay.
func oracleKVGet(r *Runner, snaps []*Snap, label string) *Violation {
	for _, s := range snaps {
		st := r.store(s.Peer).(iface.KeyValueStore)
		m := ModelKV(s.Entries, s.Order)
		for _, k := range append(append([]string{}, r.Cfg.Keys...), "never-written") {
			got, err := st.Get(bg, k)
			r.V.Count("kv_get_checks", 1)
			if err != nil {
				return &Violation{"kv-get-error", fmt.Sprintf("p%d Get(%q): %v", s.Peer, k, err)}
			}
			want, ok := m[k]
			if !ok {
				want = nil
			}
			if !bytes.Equal(got, want) {
				// the view oracle decides races between snapshot and Get: re-read
				s2 := TakeSnap(tKV, st, s.Peer)
				if s2.View != s.View {
					continue
				}
				return &Violation{"kv-get-differs-from-replay", fmt.Sprintf("p%d Get(%q)=%x, replay says %x (present=%v)", s.Peer, k, got, want, ok)}
			}
		}
	}
	return nil
}

func caseVariants(k string) []string {
	return []string{k, strings.ToLower(k), strings.ToUpper(k)}
}

// oracleDocsQueries: Get option combinations and Query predicates.
func oracleDocsQueries(r *Runner, snaps []*Snap, label string) *Violation {
	for _, s := range snaps {
		st := r.store(s.Peer).(iface.DocumentStore)
		m := ModelDocs(s.Entries, s.Order)
		// search terms
		terms := map[string]bool{"zz-none": true}
		for _, k := range r.Cfg.Keys {
			for _, v := range caseVariants(k) {
				terms[v] = true
			}
			rs := []rune(k)
			for i := 0; i < len(rs); i++ {
				for l := 1; l <= 3 && i+l <= len(rs); l++ {
					terms[string(rs[i:i+l])] = true
				}
			}
		}
		for term := range terms {
			if strings.Contains(term, " ") {
				continue
			}
			for _, ci := range []bool{false, true} {
				for _, partial := range []bool{false, true} {
					got, err := st.Get(bg, term, &iface.DocumentStoreGetOptions{CaseInsensitive: ci, PartialMatches: partial})
					r.V.Count("doc_get_checks", 1)
					if err != nil {
						return &Violation{"doc-get-error", fmt.Sprintf("p%d Get(%q,ci=%v,partial=%v): %v", s.Peer, term, ci, partial, err)}
					}
					want := map[string][]byte{}
					for k, v := range m {
						kk, tt := k, term
						if ci {
							kk, tt = strings.ToLower(kk), strings.ToLower(tt)
						}
						if (!partial && kk == tt) || (partial && strings.Contains(kk, tt)) {
							want[k] = v
						}
					}
					if g, w := canonDocs(got), canonDocsModel(want); g != w {
						if TakeSnap(tDocs, st, s.Peer).View != s.View {
							continue
						}
						return &Violation{"doc-get-differs-from-model", fmt.Sprintf("p%d Get(%q,ci=%v,partial=%v) returned\n%s\nmodel:\n%s", s.Peer, term, ci, partial, g, w)}
					}
				}
			}
		}
		// query predicates
		type pred struct {
			name string
			f    func(id string, n int) bool
		}
		c := 0
		if len(s.Order) > 0 {
			c = r.Counter / 2
		}
		preds := []pred{
			{"false", func(string, int) bool { return false }},
			{"n==c", func(_ string, n int) bool { return n == c }},
			{"n>c", func(_ string, n int) bool { return n > c }},
			{"prefix", func(id string, _ int) bool { return strings.HasPrefix(strings.ToLower(id), "d") }},
		}
		for _, p := range preds {
			got, err := st.Query(bg, func(doc interface{}) (bool, error) {
				mm := doc.(map[string]interface{})
				id, _ := mm["_id"].(string)
				n, _ := mm["n"].(float64)
				return p.f(id, int(n)), nil
			})
			r.V.Count("doc_query_checks", 1)
			if err != nil {
				return &Violation{"doc-query-error", fmt.Sprintf("p%d Query(%s): %v", s.Peer, p.name, err)}
			}
			want := map[string][]byte{}
			for k, v := range m {
				var d Doc
				if jsonUnmarshal(v, &d) == nil && p.f(d.ID, d.N) {
					want[k] = v
				}
			}
			if g, w := canonDocs(got), canonDocsModel(want); g != w {
				if TakeSnap(tDocs, st, s.Peer).View != s.View {
					continue
				}
				return &Violation{"doc-query-differs-from-model", fmt.Sprintf("p%d Query(%s) returned\n%s\nmodel:\n%s", s.Peer, p.name, g, w)}
			}
		}
	}
	return nil
}

// ---- C08 windows ----

type windowStats struct {
	judged int
	full   bool
	calls  int
}

func (ws *windowStats) oracle(r *Runner, snaps []*Snap, label string) *Violation {
	ws.calls++
	// enumerate completely at the final checkpoint and at every 3rd one
	if !ws.full && ws.calls%3 != 0 {
		return nil
	}
	for _, s := range snaps {
		st := r.store(s.Peer).(iface.EventLogStore)
		full := s.Order
		n := len(full)
		amounts := []*int{nil}
		for _, a := range []int{0, 1, 2, n - 1, n, n + 3, -1, -7} {
			a := a
			amounts = append(amounts, &a)
		}
		type q struct{ kind, bound string }
		qs := []q{{"", ""}}
		for _, h := range full {
			for _, k := range []string{"gt", "gte", "lt", "lte"} {
				qs = append(qs, q{k, h})
			}
		}
		for _, qq := range qs {
			for _, am := range amounts {
				if am != nil && *am == n-1 && n-1 < 0 {
					continue
				}
				opts := &iface.StreamOptions{Amount: am}
				if qq.bound != "" {
					c := mustCid(qq.bound)
					switch qq.kind {
					case "gt":
						opts.GT = &c
					case "gte":
						opts.GTE = &c
					case "lt":
						opts.LT = &c
					case "lte":
						opts.LTE = &c
					}
				}
				want := ModelWindow(full, qq.kind, qq.bound, am)
				ops, err := st.List(bg, opts)
				if err != nil {
					return &Violation{"list-error", err.Error()}
				}
				var got []string
				for _, o := range ops {
					got = append(got, o.GetEntry().GetHash().String())
				}
				ws.judged++
				r.V.Count("window_queries_judged", 1)
				if !eqStrings(got, want) {
					if !eqStrings(TakeSnap(tEvent, st, s.Peer).Order, full) {
						continue
					}
					as := "unset"
					if am != nil {
						as = fmt.Sprint(*am)
					}
					pos := sort.SearchStrings(nil, "")
					_ = pos
					return &Violation{"window-differs-from-contract", fmt.Sprintf("p%d List(%s %s, amount=%s) over %d entries returned [%s], contract says [%s]", s.Peer, qq.kind, short(qq.bound), as, n, shorts(got), shorts(want))}
				}
				// Stream must agree with List (sampled: it is the same code path)
				if ws.judged%7 == 0 {
					ch := make(chan operationT, 64)
					var sgot []string
					done := make(chan struct{})
					go func() {
						for o := range ch {
							sgot = append(sgot, o.GetEntry().GetHash().String())
						}
						close(done)
					}()
					if err := st.Stream(bg, ch, opts); err != nil {
						return &Violation{"stream-error", err.Error()}
					}
					<-done
					r.V.Count("stream_queries_judged", 1)
					if !eqStrings(sgot, want) && eqStrings(TakeSnap(tEvent, st, s.Peer).Order, full) {
						return &Violation{"window-differs-from-contract", fmt.Sprintf("p%d Stream(%s %s) returned [%s], contract says [%s]", s.Peer, qq.kind, short(qq.bound), shorts(sgot), shorts(want))}
					}
				}
			}
		}
		// Get by address
		for _, h := range full {
			op, err := st.Get(bg, mustCid(h))
			r.V.Count("get_by_address_checks", 1)
			if err != nil {
				return &Violation{"get-by-address-error", fmt.Sprintf("p%d Get(%s): %v", s.Peer, short(h), err)}
			}
			if op.GetEntry().GetHash().String() != h {
				return &Violation{"get-by-address-wrong-entry", fmt.Sprintf("p%d Get(%s) returned entry %s", s.Peer, short(h), short(op.GetEntry().GetHash().String()))}
			}
		}
		// two bounds at once: exercised, not judged
		if n >= 2 {
			a, b := mustCid(full[0]), mustCid(full[n-1])
			_, _ = st.List(bg, &iface.StreamOptions{GT: &a, LT: &b})
			r.V.Count("two_bound_queries_exercised", 1)
		}
	}
	return nil
}

var _ = cid.Undef
