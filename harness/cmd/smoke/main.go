package main

import (
	"context"
	"fmt"
	"time"

	"berty.tech/go-orbit-db/accesscontroller"
	"berty.tech/go-orbit-db/iface"

	"verifharness/hk"
	"verifharness/sim"
)

func main() {
	hk.Install()
	w := sim.NewWorld(hk.Global)
	defer w.Close()
	t0 := time.Now()
	a, err := w.AddPeer(sim.PeerOpts{})
	if err != nil {
		panic(err)
	}
	b, err := w.AddPeer(sim.PeerOpts{})
	if err != nil {
		panic(err)
	}
	fmt.Println("peers", time.Since(t0))
	ctx := context.Background()
	ac := accesscontroller.NewEmptyManifestParams()
	ac.SetAccess("write", []string{"*"})
	ka, err := a.DB.KeyValue(ctx, "db1", &iface.CreateDBOptions{AccessController: ac})
	if err != nil {
		panic(err)
	}
	a.Track(ka)
	kb, err := b.DB.KeyValue(ctx, ka.Address().String(), nil)
	if err != nil {
		panic(err)
	}
	b.Track(kb)
	fmt.Println("opened", time.Since(t0), "pending", hk.Global.Pending(), hk.Global.Detail())
	w.Flush()
	for i := 0; i < 5; i++ {
		if _, err := ka.Put(ctx, fmt.Sprintf("k%d", i), []byte("v")); err != nil {
			panic(err)
		}
	}
	if _, err := kb.Put(ctx, "kb", []byte("x")); err != nil {
		panic(err)
	}
	fmt.Println("wrote", time.Since(t0), "inflight", w.InflightLen(), "pending", hk.Global.Pending())
	ok := w.Flush()
	fmt.Println("flushed", ok, time.Since(t0), "pending", hk.Global.Pending(), hk.Global.Detail())
	fmt.Println(len(ka.All()), len(kb.All()), ka.OpLog().Len(), kb.OpLog().Len())
	fmt.Println(hk.Global.Arrivals())
}
