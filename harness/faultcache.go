package main

import (
	"context"
	"errors"
	"sync/atomic"
	"time"

	"berty.tech/go-orbit-db/address"
	"berty.tech/go-orbit-db/cache"
	"berty.tech/go-orbit-db/cache/cacheleveldown"
	ds "github.com/ipfs/go-datastore"
	"github.com/ipfs/go-datastore/query"
)

// faultCache wraps the real cacheleveldown cache; when armed, the next Put of
// the given key fails (once), like a datastore that is full or broken.
type faultCache struct {
	real    cache.Interface
	armKey  atomic.Value // string
	armed   int32
	Injects int32
	// SlowPut, if set, is asked how long the Put of a key takes (a datastore may take arbitrarily long)
	SlowPut func(key string) time.Duration
	// AfterPut, if set, observes every successful Put
	AfterPut func(key string, val []byte)
	// closeErrs is the number of datastore Close calls that still fail (after closing the real datastore)
	closeErrs   int32
	CloseFailed int32
}

// FailNextClose makes the next n datastore Close calls report an error (the real datastore is closed all the same).
func (c *faultCache) FailNextClose(n int) { atomic.StoreInt32(&c.closeErrs, int32(n)) }

func (d *faultDS) Close() error {
	err := d.Datastore.Close()
	if atomic.AddInt32(&d.c.closeErrs, -1) >= 0 {
		atomic.AddInt32(&d.c.CloseFailed, 1)
		return errors.New("sim: injected datastore close failure")
	}
	return err
}

func newFaultCache() *faultCache { return &faultCache{real: cacheleveldown.New(nil)} }

func (c *faultCache) Arm(key string) {
	c.armKey.Store(key)
	atomic.StoreInt32(&c.armed, 1)
}

type faultDS struct {
	ds.Datastore
	c *faultCache
}

func (d *faultDS) Put(ctx context.Context, k ds.Key, v []byte) error {
	if want, _ := d.c.armKey.Load().(string); want != "" && k.String() == want && atomic.CompareAndSwapInt32(&d.c.armed, 1, 0) {
		atomic.AddInt32(&d.c.Injects, 1)
		return errors.New("sim: injected datastore failure")
	}
	if f := d.c.SlowPut; f != nil {
		if dl := f(k.String()); dl > 0 {
			time.Sleep(dl)
		}
	}
	err := d.Datastore.Put(ctx, k, v)
	if f := d.c.AfterPut; f != nil && err == nil {
		f(k.String(), v)
	}
	return err
}

func (d *faultDS) Query(ctx context.Context, q query.Query) (query.Results, error) {
	return d.Datastore.Query(ctx, q)
}

func (c *faultCache) Load(dir string, a address.Address) (ds.Datastore, error) {
	d, err := c.real.Load(dir, a)
	if err != nil {
		return nil, err
	}
	return &faultDS{Datastore: d, c: c}, nil
}
func (c *faultCache) Close() error                                { return c.real.Close() }
func (c *faultCache) Destroy(dir string, a address.Address) error { return c.real.Destroy(dir, a) }
