package main

import (
	"context"
	"errors"
	"sync/atomic"

	"berty.tech/go-orbit-db/address"
	"berty.tech/go-orbit-db/cache"
	"berty.tech/go-orbit-db/cache/cacheleveldown"
	ds "github.com/ipfs/go-datastore"
	"github.com/ipfs/go-datastore/query"
)

// faultCache wraps the real cacheleveldown cache; when armed, the next Put of
// the given key fails (once), like a datastore that is full or broken.
type faultCache struct {
	real    cache.Interface
	armKey  atomic.Value // string
	armed   int32
	Injects int32
}

func newFaultCache() *faultCache { return &faultCache{real: cacheleveldown.New(nil)} }

func (c *faultCache) Arm(key string) {
	c.armKey.Store(key)
	atomic.StoreInt32(&c.armed, 1)
}

type faultDS struct {
	ds.Datastore
	c *faultCache
}

func (d *faultDS) Put(ctx context.Context, k ds.Key, v []byte) error {
	if want, _ := d.c.armKey.Load().(string); want != "" && k.String() == want && atomic.CompareAndSwapInt32(&d.c.armed, 1, 0) {
		atomic.AddInt32(&d.c.Injects, 1)
		return errors.New("sim: injected datastore failure")
	}
	return d.Datastore.Put(ctx, k, v)
}

func (d *faultDS) Query(ctx context.Context, q query.Query) (query.Results, error) {
	return d.Datastore.Query(ctx, q)
}

func (c *faultCache) Load(dir string, a address.Address) (ds.Datastore, error) {
	d, err := c.real.Load(dir, a)
	if err != nil {
		return nil, err
	}
	return &faultDS{Datastore: d, c: c}, nil
}
func (c *faultCache) Close() error                                { return c.real.Close() }
func (c *faultCache) Destroy(dir string, a address.Address) error { return c.real.Destroy(dir, a) }
