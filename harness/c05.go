package main

import (
	"context"
	"fmt"
	"math/rand"
	"sort"
	"sync"
	"time"

	"berty.tech/go-orbit-db/iface"
	"berty.tech/go-orbit-db/stores"

	"verifharness/fw"
	"verifharness/sim"
)

func init() {
	fw.Register(&fw.Property{
		ID:    "C05",
		Level: "fault_enumeration",
		Rule: "mode (d) write before load: 1-4 writes, then one or two process lives in which the reopened database is written to 1-2 times before (or without) Load, a last restart and Load(-1): every acknowledged write is in the recovered log, which is closed under ancestry, and the peer can still write (9 cases quick / 45 thorough, all store types). mode (a) prefix replay, EXHAUSTIVE per history: a history of 6-20 local writes, replications (1-2 remote writers, forks) and local writes held at write.after-append while a remote batch is merged and persisted runs on a peer whose kubo repo datastore (all block writes), cache datastores and keystore datastore are recording decorators; acknowledgements (write call returned; EventReplicated received) are stamped with the effect index. Then for EVERY prefix k of the effect log after database creation a fresh, isolated peer with the same libp2p key is built whose stores hold exactly effects[0:k], opens the database and calls Load(-1). mode (b): clean close/reopen cycles on real on-disk leveldb directories (3 peers, one of them holding only replicated entries), state before each stop compared with state after reopen+Load; a second short-lived handle on the same database is opened and closed now and then (writes refused afterwards are not owed, acknowledged ones are). mode (c) self-kill: a grandchild process with a leveldb-backed blockstore, the real cacheleveldown cache and leveldb keystore on disk sends itself SIGKILL right after the N-th persistence effect returned (N from the PRNG, 3 kills in a row on one directory); acknowledgements are fsync'ed to a side file before the next step; the directory is then recovered in-process. " +
			"distinct = (history, crash index) resp. (history, restart index); non-trivial = the prefix lies after at least one acknowledgement (something must be recovered) resp. the restarted replica held >= 1 entry",
		Assumptions: []string{"each effect is durable once its call returns (no fsync / power-loss model)", "sequential writers on the crashing peer (concurrent writers are C17)", "after every reopen Load(-1) is called before anything is written (assumption stated by the properties)"},
		Cases:       c05Cases,
		Run:         c05Run,
		MinDistinct: map[string]int{"quick": 150, "thorough": 2000},
		Batch:       1,
		Jobs:        12,
		CaseTimeout: 600 * time.Second,
		Explain:     "oracle after recovery: recovered entries ⊇ entries acknowledged at or before the crash index; ⊆ entries ever created; closed under next; view = LWW replay of the recovered log; identity id unchanged; a new write succeeds and is listed.",
	})
}

func c05Cases(tier string, seed int64) []fw.Case {
	na, nb := 24, 10
	if tier == "thorough" {
		na, nb = 200, 60
	}
	rng := rand.New(rand.NewSource(seed*1190494759 + 5))
	var out []fw.Case
	idx := 0
	for i := 0; i < na; i++ {
		out = append(out, fw.Case{Idx: idx, Seed: rng.Int63(), Kind: "prefix", P: map[string]interface{}{"type": storeTypes[i%3], "steps": 6 + rng.Intn(15), "remotes": 1 + rng.Intn(2)}})
		idx++
	}
	for i := 0; i < nb; i++ {
		out = append(out, fw.Case{Idx: idx, Seed: rng.Int63(), Kind: "cycles", P: map[string]interface{}{"type": storeTypes[i%3], "steps": 20 + rng.Intn(30)}})
		idx++
	}
	nk := 6
	if tier == "thorough" {
		nk = 70
	}
	for i := 0; i < nk; i++ {
		out = append(out, fw.Case{Idx: idx, Seed: rng.Int63(), Kind: "kill", P: map[string]interface{}{"type": storeTypes[i%3], "rounds": 3}})
		idx++
	}
	out = append(out, c05WblCases(tier, seed, idx)...)
	return out
}

func c05Run(c fw.Case) fw.Verdict {
	if c.Kind == "write-before-load" {
		return c05WblRun(c)
	}
	if c.Kind == "cycles" {
		return c05Cycles(c)
	}
	if c.Kind == "kill" {
		return c05Kill(c)
	}
	return c05Prefix(c)
}

func c05Prefix(c fw.Case) fw.Verdict {
	e := NewEnv()
	defer e.Close()
	v := fw.Verdict{}
	rng := rand.New(rand.NewSource(c.Seed))
	typ := c.Str("type", tKV)
	log := &EffectLog{}
	rc := newRecCache(log)
	P, err := e.W.AddPeer(sim.PeerOpts{RepoDS: newRecDS(log, "repo"), KeystoreDS: newRecDS(log, "keystore"), Cache: rc})
	if err != nil {
		return fw.Verdict{Status: fw.Inconclusive, What: err.Error()}
	}
	var remotes []*sim.Peer
	for i := 0; i < c.Int("remotes", 1); i++ {
		o, err := e.W.AddPeer(sim.PeerOpts{})
		if err != nil {
			return fw.Verdict{Status: fw.Inconclusive, What: err.Error()}
		}
		remotes = append(remotes, o)
	}
	db, err := e.CreateDB("c05", typ, P, remotes, idsOf(append([]*sim.Peer{P}, remotes...)...))
	if err != nil {
		return fw.Verdict{Status: fw.Inconclusive, What: "create: " + err.Error()}
	}
	sP := db.Stores[P.Idx]
	e.W.Flush()
	identityID := P.DB.Identity().ID
	k0 := log.Len()

	// acknowledgement of replication: EventReplicated as a user would see it
	ctx, cancel := context.WithCancel(bg)
	sub, err := sP.EventBus().Subscribe(new(stores.EventReplicated), busBuf(1024))
	if err != nil {
		cancel()
		return fw.Verdict{Status: fw.Inconclusive, What: err.Error()}
	}
	var wg sync.WaitGroup
	wg.Add(1)
	go func() {
		defer wg.Done()
		defer sub.Close()
		for {
			select {
			case x := <-sub.Out():
				ev := x.(stores.EventReplicated)
				var hs []string
				for _, en := range ev.Entries {
					hs = append(hs, en.GetHash().String())
				}
				log.Mark("replicated", hs...)
			case <-ctx.Done():
				return
			}
		}
	}()
	var script []string
	for i := 0; i < c.Int("steps", 10); i++ {
		switch x := rng.Intn(14); {
		case x >= 12:
			// a long remote branch arrives in one batch: several ancestors to fetch behind one announced head
			o := remotes[rng.Intn(len(remotes))]
			nb := 3 + rng.Intn(4)
			for j := 0; j < nb; j++ {
				if _, err := ApplyOp(bg, db.Stores[o.Idx], honestOp(typ, 600+i*10+j)); err != nil {
					cancel()
					return fw.Verdict{Status: fw.Inconclusive, What: "remote write: " + err.Error()}
				}
			}
			e.W.Settle()
			// only the newest announcement gets through
			pool := e.W.Inflight()
			for k, m := range pool {
				if k < len(pool)-1 {
					e.W.Take(m.ID)
				}
			}
			e.W.Flush()
			script = append(script, fmt.Sprintf("remote-burst(p%d,%d)", o.Idx, nb))
		case x >= 10:
			// a remote batch is merged while a local write is between append and head persistence
			o := remotes[rng.Intn(len(remotes))]
			if _, err := ApplyOp(bg, db.Stores[o.Idx], honestOp(typ, 300+i)); err != nil {
				cancel()
				return fw.Verdict{Status: fw.Inconclusive, What: "remote write: " + err.Error()}
			}
			e.W.Settle()
			op, err := writeRacingMerge(e, sP, honestOp(typ, i))
			if err != nil {
				cancel()
				return fw.Verdict{Status: fw.Inconclusive, What: "write: " + err.Error()}
			}
			log.Mark("write", op.GetEntry().GetHash().String())
			script = append(script, "local-write-racing-merge")
			v.Count("write_merge_races", 1)
		case x < 5:
			op, err := ApplyOp(bg, sP, honestOp(typ, i))
			if err != nil {
				cancel()
				return fw.Verdict{Status: fw.Inconclusive, What: "write: " + err.Error()}
			}
			log.Mark("write", op.GetEntry().GetHash().String())
			script = append(script, "local-write")
		case x < 8:
			o := remotes[rng.Intn(len(remotes))]
			if _, err := ApplyOp(bg, db.Stores[o.Idx], honestOp(typ, 100+i)); err != nil {
				cancel()
				return fw.Verdict{Status: fw.Inconclusive, What: "remote write: " + err.Error()}
			}
			script = append(script, fmt.Sprintf("remote-write(p%d)", o.Idx))
		default:
			script = append(script, "deliver-all")
			e.W.Flush()
		}
		e.W.Settle()
	}
	e.W.Flush()
	time.Sleep(3 * time.Millisecond) // harness subscriber drain (marks only get later, never earlier)
	cancel()
	wg.Wait()
	// universe: every entry that exists anywhere
	universe := map[string]*EntryInfo{}
	for _, p := range append([]*sim.Peer{P}, remotes...) {
		for _, en := range db.Stores[p.Idx].OpLog().Values().Slice() {
			universe[en.GetHash().String()] = infoOf(en)
		}
	}
	log.mu.Lock()
	effects := append([]Effect{}, log.Effects...)
	marks := append([]Mark{}, log.Marks...)
	log.mu.Unlock()
	priv := P.Priv
	P.Destroy()
	for _, o := range remotes {
		o.Stop()
	}
	e.W.Settle()
	v.Count("effects_recorded", int64(len(effects)))
	v.Count("acknowledgements", int64(len(marks)))
	areas := map[string]int{}
	for _, ef := range effects {
		a := ef.Area
		if len(a) > 5 && a[:5] == "cache" {
			a = "cache"
		}
		areas[a]++
	}
	for a, n := range areas {
		v.Count("effects_"+a, int64(n))
	}

	for k := k0; k <= len(effects); k++ {
		need := map[string]string{}
		for _, m := range marks {
			if m.At <= k {
				for _, h := range m.Hashes {
					need[h] = m.Kind
				}
			}
		}
		repo, ks, cache := Replay(effects, k)
		R, err := e.W.AddPeer(sim.PeerOpts{RepoDS: repo, KeystoreDS: ks, Cache: cache, PrivKey: priv, NoOrbit: true})
		if err != nil {
			return fw.Verdict{Status: fw.Inconclusive, What: "recover peer: " + err.Error()}
		}
		e.W.Isolate(R, true)
		for _, o := range e.W.Peers() {
			if o != R {
				e.W.Cut(R, o)
			}
		}
		fail := func(key, what string) fw.Verdict {
			R.Destroy()
			last := "none"
			if k > 0 {
				last = fmt.Sprintf("%s %s", effects[k-1].Area, effects[k-1].Key)
			}
			return fw.Verdict{Status: fw.Violated, Key: key, NonTrivial: true, Counters: v.Counters, Trace: script,
				What: fmt.Sprintf("crash after effect %d of %d (last durable effect: %s): %s", k, len(effects), last, what)}
		}
		if err := R.Start(); err != nil {
			return fail("recovery-instance-failed", "instance cannot be created on the recovered directory: "+err.Error())
		}
		if R.DB.Identity().ID != identityID {
			return fail("identity-changed", "the peer's identity id changed across the crash")
		}
		octx, ocancel := context.WithTimeout(bg, 30*time.Second)
		s, err := R.DB.Open(octx, db.Addr, &iface.CreateDBOptions{})
		ocancel()
		if err != nil {
			return fail("recovery-open-failed", "database cannot be reopened: "+err.Error())
		}
		R.Track(s)
		lctx, lcancel := context.WithTimeout(bg, 60*time.Second)
		lerr := s.Load(lctx, -1)
		lcancel()
		e.W.Settle()
		sn := TakeSnap(typ, s, R.Idx)
		have := map[string]bool{}
		for _, h := range sn.Order {
			have[h] = true
		}
		v.Count("recoveries", 1)
		if len(need) > 0 {
			v.Sigs = append(v.Sigs, fw.HashSig(c.Seed, k))
		}
		var missing []string
		for h, kind := range need {
			if !have[h] {
				missing = append(missing, kind+":"+short(h))
			}
		}
		if len(missing) > 0 {
			sort.Strings(missing)
			what := fmt.Sprintf("%d acknowledged entries are missing after recovery (%v); recovered %d entries", len(missing), missing, len(sn.Order))
			if lerr != nil {
				what += "; Load returned " + lerr.Error()
			}
			kind := "write"
			if missing[0][:4] == "repl" {
				kind = "replicated"
			}
			return fail("acknowledged-"+kind+"-lost-after-crash", what)
		}
		if lerr != nil {
			return fail("recovery-load-error", "Load(-1) after the crash returned "+lerr.Error())
		}
		for _, h := range sn.Order {
			if universe[h] == nil {
				return fail("recovered-unknown-entry", "recovered log contains entry "+short(h)+" that was never written")
			}
		}
		if ok, miss := ClosedUnderNext(sn.Entries, sn.Order); !ok {
			return fail("recovered-log-not-closed", "recovered log is not closed under ancestry: "+short(miss)+" is referenced but missing")
		}
		if vio := checkSnapAgainstModel(typ, universe, sn, &v); vio != nil {
			return fail(vio.Key+"/after-crash", vio.What)
		}
		op, err := ApplyOp(bg, s, honestOp(typ, 9000+k))
		if err != nil {
			return fail("cannot-write-after-recovery", "a write after recovery failed: "+err.Error())
		}
		if !logHas(s, op.GetEntry().GetHash()) {
			return fail("cannot-write-after-recovery", "a write after recovery is not listed")
		}
		R.Destroy()
		e.W.Settle()
	}
	v.Status = fw.Held
	v.NonTrivial = len(marks) > 0
	v.Sig = fw.HashSig("prefix", c.Seed)
	v.Sample = map[string]interface{}{"mode": "prefix-replay", "type": typ, "history": script, "effects": len(effects), "crash_points": len(effects) - k0 + 1, "acknowledgements": len(marks), "exhaustive_for_this_history": true}
	return v
}

func c05Cycles(c fw.Case) fw.Verdict {
	e := NewEnv()
	defer e.Close()
	v := fw.Verdict{}
	rng := rand.New(rand.NewSource(c.Seed))
	typ := c.Str("type", tKV)
	var peers []*sim.Peer
	for i := 0; i < 3; i++ {
		p, err := e.W.AddPeer(sim.PeerOpts{OnDisk: true})
		if err != nil {
			return fw.Verdict{Status: fw.Inconclusive, What: err.Error()}
		}
		peers = append(peers, p)
	}
	// peer 1 never writes: it holds only replicated entries
	db, err := e.CreateDB("c05c", typ, peers[0], peers[1:], idsOf(peers[0], peers[2]))
	if err != nil {
		return fw.Verdict{Status: fw.Inconclusive, What: "create: " + err.Error()}
	}
	e.W.Flush()
	restarts := 0
	var script []string
	// acknowledgements per peer: writes that returned nil, entries reported by EventReplicated
	var amu sync.Mutex
	acked := map[int]map[string]bool{0: {}, 1: {}, 2: {}}
	degraded := map[int]bool{} // a sibling handle closed the shared cache: only acknowledged entries are owed
	cancels := map[int]context.CancelFunc{}
	watch := func(i int) {
		ctx, cancel := context.WithCancel(bg)
		cancels[i] = cancel
		sub, err := db.Stores[peers[i].Idx].EventBus().Subscribe(new(stores.EventReplicated), busBuf(1024))
		if err != nil {
			return
		}
		go func() {
			defer sub.Close()
			for {
				select {
				case x := <-sub.Out():
					ev := x.(stores.EventReplicated)
					if ev.Address.String() != db.Addr {
						continue
					}
					amu.Lock()
					for _, en := range ev.Entries {
						acked[i][en.GetHash().String()] = true
					}
					amu.Unlock()
				case <-ctx.Done():
					return
				}
			}
		}()
	}
	for i := range peers {
		watch(i)
	}
	defer func() {
		for _, c := range cancels {
			c()
		}
	}()
	for i := 0; i < c.Int("steps", 20); i++ {
		switch x := rng.Intn(13); {
		case x == 12:
			// a second, short-lived handle on the same database in the same process
			w := []int{0, 2}[rng.Intn(2)]
			if !peers[w].Running() {
				continue
			}
			octx, ocancel := context.WithTimeout(bg, 20*time.Second)
			sib, err := peers[w].DB.Open(octx, db.Addr, &iface.CreateDBOptions{})
			ocancel()
			if err == nil {
				_ = sib.Load(bg, -1)
				_ = sib.Close()
				// Close of the sibling unregistered the address: register the surviving handle's store again for idle detection
				peers[w].Track(db.Stores[peers[w].Idx])
				degraded[w] = true
				script = append(script, fmt.Sprintf("sibling-handle-opened-and-closed(p%d)", w))
				v.Count("sibling_handles", 1)
			}
			e.W.Settle()
		case x >= 10:
			if !peers[0].Running() || !peers[2].Running() {
				continue
			}
			if wop, err := ApplyOp(bg, db.Stores[peers[2].Idx], honestOp(typ, 300+i)); err == nil {
				amu.Lock()
				acked[2][wop.GetEntry().GetHash().String()] = true
				amu.Unlock()
			}
			e.W.Settle()
			if wop, err := writeRacingMerge(e, db.Stores[peers[0].Idx], honestOp(typ, i)); err == nil {
				amu.Lock()
				acked[0][wop.GetEntry().GetHash().String()] = true
				amu.Unlock()
			}
			script = append(script, "write-racing-merge(p0)")
			v.Count("write_merge_races", 1)
			e.W.Settle()
		case x < 5:
			w := []int{0, 2}[rng.Intn(2)]
			if !peers[w].Running() {
				continue
			}
			if wop, err := ApplyOp(bg, db.Stores[peers[w].Idx], honestOp(typ, i)); err == nil {
				amu.Lock()
				acked[w][wop.GetEntry().GetHash().String()] = true
				amu.Unlock()
			} else {
				// not acknowledged (e.g. the cache was closed through a sibling handle): nothing is owed for it
				script = append(script, fmt.Sprintf("write(p%d)=refused", w))
				v.Count("writes_refused", 1)
				e.W.Settle()
				continue
			}
			script = append(script, fmt.Sprintf("write(p%d)", w))
			e.W.Settle()
		case x < 7:
			script = append(script, "deliver-all")
			e.W.Flush()
		default:
			i := rng.Intn(3)
			p := peers[i]
			e.W.Settle()
			before := TakeSnap(typ, db.Stores[p.Idx], p.Idx)
			idBefore := p.DB.Identity().ID
			time.Sleep(2 * time.Millisecond) // harness subscriber drain
			cancels[i]()
			p.Stop()
			e.W.Settle()
			if err := p.Start(); err != nil {
				return fw.Verdict{Status: fw.Violated, Key: "reopen-failed", What: err.Error(), NonTrivial: true}
			}
			if err := e.OpenOn(db, p); err != nil {
				return fw.Verdict{Status: fw.Violated, Key: "reopen-failed", What: err.Error(), NonTrivial: true}
			}
			s := db.Stores[p.Idx]
			if err := s.Load(bg, -1); err != nil {
				return fw.Verdict{Status: fw.Violated, Key: "load-after-restart-failed", What: err.Error(), NonTrivial: true}
			}
			e.W.Settle()
			watch(i)
			after := TakeSnap(typ, s, p.Idx)
			restarts++
			wasDegraded := degraded[i]
			delete(degraded, i)
			script = append(script, fmt.Sprintf("restart(p%d,%d entries)", i, len(before.Order)))
			v.Count("restarts_compared", 1)
			if len(before.Order) > 0 {
				v.Sigs = append(v.Sigs, fw.HashSig(c.Seed, restarts))
			}
			if p.DB.Identity().ID != idBefore {
				return fw.Verdict{Status: fw.Violated, Key: "identity-changed", What: "identity id changed across a clean restart", NonTrivial: true}
			}
			have := map[string]bool{}
			for _, h := range after.Order {
				have[h] = true
			}
			amu.Lock()
			var owed []string
			for h := range acked[i] {
				owed = append(owed, h)
			}
			amu.Unlock()
			for _, h := range owed {
				if !have[h] {
					return fw.Verdict{Status: fw.Violated, Key: "acknowledged-entry-lost-after-clean-restart", NonTrivial: true, Trace: script,
						What: fmt.Sprintf("p%d: an acknowledged entry (write returned nil / reported by EventReplicated) %s is missing after a clean close, reopen and Load(-1) (%d of %d acknowledged entries present; sibling handle closed earlier: %v)", i, short(h), len(after.Order), len(owed), wasDegraded)}
				}
			}
			v.Count("acknowledged_entries_checked", int64(len(owed)))
			for _, h := range before.Order {
				if wasDegraded {
					break // merged but never reported entries are not owed once the shared cache was closed under the store
				}
				if !have[h] {
					kind := "replica-only"
					if i != 1 {
						kind = "writer"
					}
					return fw.Verdict{Status: fw.Violated, Key: "entries-lost-after-clean-restart/" + kind, NonTrivial: true, Trace: script,
						What: fmt.Sprintf("p%d held %d entries before a clean close; after reopen and Load(-1) it holds %d and misses %s", i, len(before.Order), len(after.Order), short(h))}
				}
			}
			if vio := checkSnapAgainstModel(typ, after.Entries, after, &v); vio != nil {
				return fw.Verdict{Status: fw.Violated, Key: vio.Key + "/after-restart", What: vio.What, NonTrivial: true}
			}
			if !wasDegraded && before.View != after.View && len(before.Order) == len(after.Order) {
				return fw.Verdict{Status: fw.Violated, Key: "state-differs-after-restart", What: "same entries, different visible state after restart", NonTrivial: true}
			}
		}
	}
	v.Status = fw.Held
	v.NonTrivial = restarts > 0
	v.Sig = fw.HashSig("cycles", c.Seed)
	v.Sample = map[string]interface{}{"mode": "clean-restart-cycles", "type": typ, "script": script}
	return v
}

// writeRacingMerge delivers everything in flight (so that a remote batch is
// being merged on the store's replica) and issues a local write that is held
// at write.after-append until the merge has persisted its heads.
func writeRacingMerge(e *Env, s iface.Store, op Op) (operationT, error) {
	persisted := make(chan struct{})
	var once sync.Once
	e.H.SetPoint("merge.after-persist", func(string, []interface{}) { once.Do(func() { close(persisted) }) })
	e.H.SetPoint("write.after-append", func(string, []interface{}) {
		select {
		case <-persisted:
		case <-time.After(25 * time.Millisecond):
		}
	})
	defer e.H.SetPoint("merge.after-persist", nil)
	defer e.H.SetPoint("write.after-append", nil)
	go e.W.DeliverAll()
	res, err := ApplyOp(bg, s, op)
	e.W.Settle()
	return res, err
}
