// Package fw is the check framework: deterministic case lists, child
// processes per batch, crash attribution, three-valued verdicts, the
// known-findings filter, evidence files and exit codes.
package fw

import (
	"bufio"
	"bytes"
	"context"
	"crypto/sha256"
	"encoding/hex"
	"encoding/json"
	"fmt"
	"os"
	"os/exec"
	"path/filepath"
	"regexp"
	"runtime"
	"sort"
	"strconv"
	"strings"
	"sync"
	"syscall"
	"time"
)

const (
	Held         = "held"
	Violated     = "violated"
	Inconclusive = "inconclusive"
	Skipped      = "skipped"
)

type Case struct {
	Idx  int                    `json:"idx"`
	Seed int64                  `json:"seed"`
	Kind string                 `json:"kind,omitempty"`
	P    map[string]interface{} `json:"p,omitempty"`
}

func (c Case) Int(k string, def int) int {
	if v, ok := c.P[k]; ok {
		switch x := v.(type) {
		case float64:
			return int(x)
		case int:
			return x
		case int64:
			return int(x)
		}
	}
	return def
}

func (c Case) Str(k, def string) string {
	if v, ok := c.P[k].(string); ok {
		return v
	}
	return def
}

func (c Case) Bool(k string) bool {
	v, _ := c.P[k].(bool)
	return v
}

type Verdict struct {
	Status     string           `json:"status"`
	Key        string           `json:"key,omitempty"`  // class key of a violation
	What       string           `json:"what,omitempty"` // explanation
	Sig        string           `json:"sig,omitempty"`  // distinctness signature
	NonTrivial bool             `json:"nontrivial,omitempty"`
	Counters   map[string]int64 `json:"counters,omitempty"`
	Sample     interface{}      `json:"sample,omitempty"`
	Trace      []string         `json:"trace,omitempty"`
	Sigs       []string         `json:"sigs,omitempty"` // extra distinct sub-case signatures
	WallMs     int64            `json:"wall_ms,omitempty"`
}

func (v *Verdict) Count(k string, n int64) {
	if v.Counters == nil {
		v.Counters = map[string]int64{}
	}
	v.Counters[k] += n
}

type Property struct {
	ID          string
	Level       string
	Rule        string
	Assumptions []string
	Cases       func(tier string, seed int64) []Case
	Run         func(c Case) Verdict
	MinDistinct map[string]int // per tier; default 2
	Batch       int
	CaseTimeout time.Duration
	Jobs        int
	// Explain is added to the evidence (free text about what monitors observe).
	Explain string
}

var registry = map[string]*Property{}

func Register(p *Property) { registry[p.ID] = p }

func Get(id string) *Property { return registry[id] }

func IDs() []string {
	var out []string
	for k := range registry {
		out = append(out, k)
	}
	sort.Strings(out)
	return out
}

func HashSig(parts ...interface{}) string {
	h := sha256.New()
	for _, p := range parts {
		fmt.Fprintf(h, "%v|", p)
	}
	return hex.EncodeToString(h.Sum(nil))[:16]
}

func verifDir() string {
	if d := os.Getenv("VERIF_DIR"); d != "" {
		return d
	}
	return "/verif"
}

// ---------------- child ----------------

type logLine struct {
	Kind string   `json:"k"`
	Case *Case    `json:"case,omitempty"`
	V    *Verdict `json:"v,omitempty"`
	Idx  int      `json:"idx"`
}

// filterCases is a debugging aid: VERIF_CASEFILTER=key=value keeps the cases whose parameter matches.
func filterCases(cases []Case) []Case {
	f := os.Getenv("VERIF_CASEFILTER")
	kv := strings.SplitN(f, "=", 2)
	if f == "" || len(kv) != 2 {
		return cases
	}
	var keep []Case
	for _, c := range cases {
		if fmt.Sprint(c.P[kv[0]]) == kv[1] {
			keep = append(keep, c)
		}
	}
	return keep
}

// ChildMain runs cases[from:to) of property id, appending BEGIN/END records
// to logPath. No recover(): a panic anywhere kills the process and the parent
// attributes the crash to the case whose BEGIN has no END.
func ChildMain(id, tier string, seed int64, from, to int, logPath string) int {
	p := Get(id)
	if p == nil {
		fmt.Fprintln(os.Stderr, "unknown property", id)
		return 2
	}
	cases := filterCases(p.Cases(tier, seed))
	if to > len(cases) {
		to = len(cases)
	}
	f, err := os.OpenFile(logPath, os.O_APPEND|os.O_CREATE|os.O_WRONLY, 0o644)
	if err != nil {
		fmt.Fprintln(os.Stderr, err)
		return 2
	}
	defer f.Close()
	enc := func(l logLine) {
		b, _ := json.Marshal(l)
		f.Write(append(b, '\n'))
		f.Sync()
	}
	timeout := p.CaseTimeout
	if timeout == 0 {
		timeout = 120 * time.Second
	}
	if os.Getenv("VERIF_RACE") == "1" {
		timeout *= 3
	}
	for i := from; i < to; i++ {
		c := cases[i]
		enc(logLine{Kind: "BEGIN", Idx: c.Idx, Case: &c})
		fmt.Fprintf(os.Stderr, "=== CASE %d BEGIN\n", c.Idx)
		done := make(chan struct{})
		go func(idx int) {
			select {
			case <-done:
			case <-time.After(timeout):
				fmt.Fprintf(os.Stderr, "=== WATCHDOG case %d exceeded %s\n", idx, timeout)
				buf := make([]byte, 8<<20)
				n := runtime.Stack(buf, true)
				os.Stderr.Write(buf[:n])
				os.Exit(97)
			}
		}(c.Idx)
		t0 := time.Now()
		v := p.Run(c)
		v.WallMs = time.Since(t0).Milliseconds()
		close(done)
		enc(logLine{Kind: "END", Idx: c.Idx, V: &v})
		fmt.Fprintf(os.Stderr, "=== CASE %d END %s\n", c.Idx, v.Status)
	}
	return 0
}

// ReplayMain re-executes one recorded case n times.
func ReplayMain(id, path string, n int) int {
	p := Get(id)
	if p == nil {
		fmt.Fprintln(os.Stderr, "unknown property", id)
		return 2
	}
	b, err := os.ReadFile(path)
	if err != nil {
		fmt.Fprintln(os.Stderr, err)
		return 2
	}
	var r struct {
		Case Case `json:"case"`
	}
	if err := json.Unmarshal(b, &r); err != nil {
		fmt.Fprintln(os.Stderr, err)
		return 2
	}
	viol := 0
	for i := 0; i < n; i++ {
		v := p.Run(r.Case)
		fmt.Printf("replay %d/%d: %s %s %s\n", i+1, n, v.Status, v.Key, v.What)
		if os.Getenv("VERIF_VERBOSE") != "" {
			b, _ := json.Marshal(v.Counters)
			fmt.Printf("   counters: %s\n   sample: %v\n", b, v.Sample)
		}
		if v.Status == Violated {
			viol++
		}
	}
	fmt.Printf("reproduced %d of %d runs\n", viol, n)
	if viol > 0 {
		fmt.Printf("VIOLATION property=%s replay=%s\n", id, path)
		return 1
	}
	return 0
}

// ---------------- parent ----------------

type result struct {
	c Case
	v Verdict
}

var reFrame = regexp.MustCompile(`^(berty\.tech/go-orbit-db[^\s(]*(?:\([^)]*\))?[^\s(]*)\(`)

// classifyCrash inspects a child's stderr after it died during case idx.
func classifyCrash(out []byte, idx int) Verdict {
	s := string(out)
	marker := fmt.Sprintf("=== CASE %d BEGIN", idx)
	if i := strings.LastIndex(s, marker); i >= 0 {
		s = s[i:]
	}
	if strings.Contains(s, "=== WATCHDOG") {
		return Verdict{Status: Inconclusive, What: "case watchdog fired", Trace: tailLines(s, 60)}
	}
	// find panic / fatal error line
	lines := strings.Split(s, "\n")
	start := -1
	kind := ""
	for i, l := range lines {
		if strings.HasPrefix(l, "panic:") || strings.HasPrefix(l, "fatal error:") || strings.HasPrefix(l, "unexpected fault address") {
			start = i
			kind = l
			break
		}
	}
	if start < 0 {
		return Verdict{Status: Inconclusive, What: "child died without panic trace", Trace: tailLines(s, 40)}
	}
	// first goroutine block after the panic line
	fn := ""
	created := ""
	inBlock := false
	harnessFirst := ""
	for _, l := range lines[start:] {
		if strings.HasPrefix(l, "goroutine ") {
			if inBlock {
				break
			}
			inBlock = true
			continue
		}
		if !inBlock {
			continue
		}
		t := strings.TrimSpace(l)
		if strings.HasPrefix(t, "created by ") {
			created = strings.TrimPrefix(t, "created by ")
			continue
		}
		if strings.HasPrefix(t, "berty.tech/go-orbit-db") && !strings.Contains(t, "/verifhook.") {
			if fn == "" {
				if j := strings.LastIndex(t, "("); j > 0 {
					fn = t[:j]
				} else {
					fn = t
				}
			}
		}
		if strings.HasPrefix(t, "verifharness/") && harnessFirst == "" && fn == "" {
			harnessFirst = t
		}
	}
	fn = strings.TrimPrefix(fn, "berty.tech/go-orbit-db/")
	tr := append([]string{kind}, tailFrom(lines, start, 40)...)
	if fn == "" && strings.Contains(created, "berty.tech/go-orbit-db") {
		fn = "goroutine-of:" + strings.TrimPrefix(strings.Fields(created)[0], "berty.tech/go-orbit-db/")
	}
	if fn == "" {
		return Verdict{Status: Inconclusive, What: "crash outside go-orbit-db frames: " + kind, Trace: tr}
	}
	// strip closure suffixes for a stable class key
	key := regexp.MustCompile(`\.func\d+(\.\d+)*$`).ReplaceAllString(fn, "")
	suffix, input := "", ""
	for _, l := range lines[:start] {
		if strings.HasPrefix(l, "=== KEYSUFFIX ") {
			suffix = strings.TrimPrefix(l, "=== KEYSUFFIX ")
		}
		if strings.HasPrefix(l, "=== INPUT ") {
			input = strings.TrimPrefix(l, "=== INPUT ")
		}
	}
	what := "process died: " + kind + " in " + fn
	if input != "" {
		if len(input) > 600 {
			input = input[:600] + "..."
		}
		what += " | last input: " + input
	}
	return Verdict{Status: Violated, Key: "crash@" + key + suffix, What: what, Trace: tr}
}

func tailLines(s string, n int) []string {
	l := strings.Split(strings.TrimRight(s, "\n"), "\n")
	if len(l) > n {
		l = l[len(l)-n:]
	}
	return l
}

func tailFrom(lines []string, start, n int) []string {
	end := start + n
	if end > len(lines) {
		end = len(lines)
	}
	return lines[start:end]
}

type knownFinding struct {
	prop, key, text string
}

func loadKnown() []knownFinding {
	var out []knownFinding
	b, err := os.ReadFile(filepath.Join(verifDir(), "KNOWN_FINDINGS.txt"))
	if err != nil {
		return nil
	}
	for _, l := range strings.Split(string(b), "\n") {
		l = strings.TrimSpace(l)
		if !strings.HasPrefix(l, "open:") {
			continue
		}
		rest := strings.TrimSpace(strings.TrimPrefix(l, "open:"))
		f := strings.Fields(rest)
		k := knownFinding{}
		textStart := 0
		for i, w := range f {
			if strings.HasPrefix(w, "property=") {
				k.prop = strings.TrimPrefix(w, "property=")
				textStart = i + 1
			} else if strings.HasPrefix(w, "key=") {
				k.key = strings.TrimPrefix(w, "key=")
				textStart = i + 1
			}
		}
		k.text = strings.Join(f[textStart:], " ")
		if k.prop != "" && k.key != "" {
			out = append(out, k)
		}
	}
	return out
}

// retriedInconclusive is the number of cases that had no verdict after the first pass and were run again.
var retriedInconclusive int

// ParentMain runs all cases of property id in child processes and decides.
func ParentMain(id, tier string, seed int64) int {
	p := Get(id)
	if p == nil {
		fmt.Fprintln(os.Stderr, "unknown property", id)
		return 2
	}
	t0 := time.Now()
	cases := p.Cases(tier, seed)
	if lim := os.Getenv("VERIF_MAXCASES"); lim != "" {
		if n, _ := strconv.Atoi(lim); n > 0 && n < len(cases) {
			cases = cases[:n]
		}
	}
	cases = filterCases(cases)
	exe, _ := os.Executable()
	jobs := p.Jobs
	if jobs == 0 {
		jobs = 8
	}
	if j, _ := strconv.Atoi(os.Getenv("VERIF_JOBS")); j > 0 {
		jobs = j
	}
	batch := p.Batch
	if batch == 0 {
		batch = 10
	}
	caseTimeout := p.CaseTimeout
	if caseTimeout == 0 {
		caseTimeout = 120 * time.Second
	}
	race := os.Getenv("VERIF_RACE") == "1"
	if race {
		caseTimeout *= 3
	}
	tmp, err := os.MkdirTemp("", "verif-"+id+"-")
	if err != nil {
		fmt.Fprintln(os.Stderr, err)
		return 2
	}
	defer os.RemoveAll(tmp)

	type span struct{ from, to int }
	var spans []span
	for i := 0; i < len(cases); i += batch {
		e := i + batch
		if e > len(cases) {
			e = len(cases)
		}
		spans = append(spans, span{i, e})
	}

	var mu sync.Mutex
	results := map[int]result{}
	raceReports := map[string]int{}
	pass := 0
	runSpans := func(spans []span, jobs int) {
		pass++
		work := make(chan span, len(spans)+1)
		for _, sp := range spans {
			work <- sp
		}
		close(work)
		var wg sync.WaitGroup
		for j := 0; j < jobs; j++ {
			wg.Add(1)
			go func(j int) {
				defer wg.Done()
				for sp := range work {
					from := sp.from
					for from < sp.to {
						logPath := filepath.Join(tmp, fmt.Sprintf("p%d-b%d-%d.log", pass, from, sp.to))
						outPath := logPath + ".out"
						os.Remove(logPath)
						of, _ := os.Create(outPath)
						ctx, cancel := context.WithTimeout(context.Background(), time.Duration(sp.to-from)*caseTimeout+30*time.Second)
						cmd := exec.CommandContext(ctx, exe, "child", id, tier, strconv.FormatInt(seed, 10), strconv.Itoa(from), strconv.Itoa(sp.to), logPath)
						cmd.Stdout = of
						cmd.Stderr = of
						cmd.Env = append(os.Environ(), "GOMAXPROCS=4", "TMPDIR="+tmp)
						if race {
							cmd.Env = append(cmd.Env, "GORACE=halt_on_error=0 exitcode=0 log_path="+filepath.Join(tmp, fmt.Sprintf("race-%d", from)))
						}
						cmd.Cancel = func() error { return cmd.Process.Signal(syscall.SIGQUIT) }
						cmd.WaitDelay = 10 * time.Second
						_ = cmd.Run()
						cancel()
						of.Close()
						// parse log
						begun := map[int]Case{}
						ended := map[int]Verdict{}
						if lf, err := os.Open(logPath); err == nil {
							sc := bufio.NewScanner(lf)
							sc.Buffer(make([]byte, 1<<20), 64<<20)
							for sc.Scan() {
								var l logLine
								if json.Unmarshal(sc.Bytes(), &l) != nil {
									continue
								}
								if l.Kind == "BEGIN" && l.Case != nil {
									begun[l.Idx] = *l.Case
								} else if l.Kind == "END" && l.V != nil {
									ended[l.Idx] = *l.V
								}
							}
							lf.Close()
						}
						mu.Lock()
						next := from
						crashed := -1
						for i := from; i < sp.to; i++ {
							idx := cases[i].Idx
							if v, ok := ended[idx]; ok {
								results[idx] = result{cases[i], v}
								next = i + 1
							} else if _, ok := begun[idx]; ok {
								crashed = i
								break
							} else {
								break
							}
						}
						mu.Unlock()
						if crashed >= 0 {
							out, _ := os.ReadFile(outPath)
							v := classifyCrash(out, cases[crashed].Idx)
							mu.Lock()
							results[cases[crashed].Idx] = result{cases[crashed], v}
							mu.Unlock()
							next = crashed + 1
						} else if next == from {
							// child made no progress at all
							out, _ := os.ReadFile(outPath)
							mu.Lock()
							results[cases[from].Idx] = result{cases[from], Verdict{Status: Inconclusive, What: "child failed to start case", Trace: tailLines(string(out), 30)}}
							mu.Unlock()
							next = from + 1
						}
						from = next
					}
				}
			}(j)
		}
		wg.Wait()
	}
	runSpans(spans, jobs)

	// a case without a verdict (watchdog, rest not reached: typically a loaded machine) is run once more,
	// alone in its child and with fewer children; a verdict reached then replaces "inconclusive"
	var again []span
	for i, c := range cases {
		if r, ok := results[c.Idx]; ok && r.v.Status == Inconclusive {
			again = append(again, span{i, i + 1})
		}
	}
	retried := len(again)
	retriedInconclusive = retried
	if retried > 0 && os.Getenv("VERIF_NORETRY") == "" {
		first := map[int]string{}
		for _, sp := range again {
			first[cases[sp.from].Idx] = results[cases[sp.from].Idx].v.What
		}
		rj := jobs / 2
		if rj < 1 {
			rj = 1
		}
		runSpans(again, rj)
		for idx, what := range first {
			if r := results[idx]; r.v.Status != Inconclusive {
				r.v.Count("first_attempt_inconclusive", 1)
				_ = what
				results[idx] = r
			}
		}
	}

	// race reports (observations only)
	if race {
		files, _ := filepath.Glob(filepath.Join(tmp, "race-*"))
		for _, f := range files {
			b, _ := os.ReadFile(f)
			for _, blk := range bytes.Split(b, []byte("==================")) {
				if !bytes.Contains(blk, []byte("WARNING: DATA RACE")) {
					continue
				}
				raceReports[raceKey(string(blk))]++
			}
		}
	}

	return decide(p, tier, seed, cases, results, raceReports, time.Since(t0), race)
}

var reFn = regexp.MustCompile(`^\s+([\w./\-*()\[\]]+)\(`)

// raceKey reduces a race report to the pair of innermost go-orbit-db (or
// else innermost) functions of its two stacks.
func raceKey(blk string) string {
	var stacks [][]string
	var cur []string
	for _, l := range strings.Split(blk, "\n") {
		t := strings.TrimSpace(l)
		if strings.HasPrefix(t, "Write at") || strings.HasPrefix(t, "Read at") || strings.HasPrefix(t, "Previous write at") || strings.HasPrefix(t, "Previous read at") {
			if cur != nil {
				stacks = append(stacks, cur)
			}
			cur = []string{}
			continue
		}
		if strings.HasPrefix(t, "Goroutine ") {
			if cur != nil {
				stacks = append(stacks, cur)
			}
			cur = nil
			continue
		}
		if cur != nil && t != "" && !strings.HasPrefix(t, "/") && strings.Contains(t, "(") {
			cur = append(cur, t[:strings.Index(t, "(")])
		}
	}
	if cur != nil {
		stacks = append(stacks, cur)
	}
	var keys []string
	for _, st := range stacks {
		k := ""
		for _, f := range st {
			if strings.HasPrefix(f, "berty.tech/go-orbit-db") {
				k = f
				break
			}
		}
		if k == "" && len(st) > 0 {
			k = st[0]
		}
		keys = append(keys, k)
	}
	sort.Strings(keys)
	return strings.Join(keys, " <-> ")
}

func decide(p *Property, tier string, seed int64, cases []Case, results map[int]result, races map[string]int, wall time.Duration, race bool) int {
	known := loadKnown()
	isKnown := func(key string) *knownFinding {
		for i := range known {
			if known[i].prop == p.ID && known[i].key == key {
				return &known[i]
			}
		}
		return nil
	}
	counters := map[string]int64{}
	sigs := map[string]bool{}
	var held, viol, inconc, skipped int
	var samples []interface{}
	var newViol []result
	knownHit := map[string]int{}
	var inconcList []map[string]interface{}
	status := map[string]int{}
	for _, c := range cases {
		r, ok := results[c.Idx]
		if !ok {
			inconc++
			inconcList = append(inconcList, map[string]interface{}{"idx": c.Idx, "why": "no result"})
			continue
		}
		v := r.v
		for k, n := range v.Counters {
			counters[k] += n
		}
		status[v.Status]++
		switch v.Status {
		case Held:
			held++
		case Violated:
			viol++
			if k := isKnown(v.Key); k != nil {
				knownHit[v.Key]++
			} else {
				newViol = append(newViol, r)
			}
		case Skipped:
			skipped++
		default:
			inconc++
			if len(inconcList) < 20 {
				inconcList = append(inconcList, map[string]interface{}{"idx": c.Idx, "why": v.What, "trace": v.Trace})
			}
		}
		if (v.Status == Held || v.Status == Violated) && v.NonTrivial {
			if v.Sig != "" {
				sigs[v.Sig] = true
			}
			for _, s := range v.Sigs {
				sigs[s] = true
			}
		}
		if v.Sample != nil && len(samples) < 4 && v.Status == Held {
			samples = append(samples, map[string]interface{}{"case": r.c, "observed": v.Sample})
		}
	}
	if len(samples) == 0 {
		for _, c := range cases {
			if len(samples) >= 3 {
				break
			}
			samples = append(samples, map[string]interface{}{"case": c})
		}
	}
	dir := verifDir()
	os.MkdirAll(filepath.Join(dir, "evidence", "replays"), 0o755)
	type slow struct {
		Idx int         `json:"idx"`
		Ms  int64       `json:"wall_ms"`
		P   interface{} `json:"p"`
	}
	var slowest []slow
	for _, c := range cases {
		if r, ok := results[c.Idx]; ok {
			slowest = append(slowest, slow{c.Idx, r.v.WallMs, c.P})
		}
	}
	sort.Slice(slowest, func(i, j int) bool { return slowest[i].Ms > slowest[j].Ms })
	if len(slowest) > 5 {
		slowest = slowest[:5]
	}

	exit := 0
	var outLines []string
	keys := make([]string, 0, len(knownHit))
	for k := range knownHit {
		keys = append(keys, k)
	}
	sort.Strings(keys)
	for _, k := range keys {
		kf := isKnown(k)
		outLines = append(outLines, fmt.Sprintf("KNOWN-FINDING: property=%s key=%s %s (%d cases)", p.ID, k, kf.text, knownHit[k]))
	}
	var violRecs []map[string]interface{}
	seenKey := map[string]bool{}
	for _, r := range newViol {
		if seenKey[r.v.Key] && len(violRecs) >= 5 {
			continue
		}
		seenKey[r.v.Key] = true
		rec := map[string]interface{}{"property": p.ID, "tier": tier, "seed": seed, "case": r.c, "verdict": r.v}
		b, _ := json.MarshalIndent(rec, "", " ")
		name := fmt.Sprintf("%s-%s.json", p.ID, HashSig(r.v.Key, r.c.Idx, seed, tier))
		path := filepath.Join(dir, "evidence", "replays", name)
		os.WriteFile(path, b, 0o644)
		outLines = append(outLines, fmt.Sprintf("VIOLATION property=%s replay=%s", p.ID, path))
		outLines = append(outLines, fmt.Sprintf("  key=%s case=%d: %s", r.v.Key, r.c.Idx, r.v.What))
		if len(violRecs) < 5 {
			violRecs = append(violRecs, map[string]interface{}{"key": r.v.Key, "what": r.v.What, "case": r.c.Idx})
		}
		exit = 1
	}
	minD := 2
	if p.MinDistinct != nil && p.MinDistinct[tier] > 0 {
		minD = p.MinDistinct[tier]
	}
	if os.Getenv("VERIF_MAXCASES") != "" || os.Getenv("VERIF_CASEFILTER") != "" {
		minD = 1
	}
	inconclusiveRun := false
	why := ""
	if len(sigs) < minD {
		inconclusiveRun = true
		why = fmt.Sprintf("only %d distinct non-trivial conclusive cases (< %d)", len(sigs), minD)
	}
	if inconc*10 > len(cases) {
		inconclusiveRun = true
		why = fmt.Sprintf("%d of %d cases inconclusive", inconc, len(cases))
	}
	if exit == 0 && inconclusiveRun {
		outLines = append(outLines, fmt.Sprintf("INCONCLUSIVE property=%s %s", p.ID, why))
		exit = 3
	}

	// evidence
	var raceList []map[string]interface{}
	for k, n := range races {
		raceList = append(raceList, map[string]interface{}{"pair": k, "reports": n})
	}
	sort.Slice(raceList, func(i, j int) bool { return raceList[i]["pair"].(string) < raceList[j]["pair"].(string) })
	cov := map[string]interface{}{
		"evaluations":         len(results),
		"distinct_nontrivial": len(sigs),
		"rule":                p.Rule,
		"samples":             samples,
		"verdicts":            status,
		"monitor_counters":    counters,
		"known_findings_hit":  knownHit,
		"inconclusive_cases":  inconcList,
		"cases_run_a_second_time_after_no_verdict": retriedInconclusive,
		"race_build":    race,
		"explanation":   p.Explain,
		"slowest_cases": slowest,
	}
	if race {
		cov["race_reports_observed"] = raceList
	}
	if len(violRecs) > 0 {
		cov["new_violations"] = violRecs
	}
	ev := map[string]interface{}{
		"property_id": p.ID,
		"tier":        tier,
		"seed":        seed,
		"level":       p.Level,
		"coverage":    cov,
		"assumptions": p.Assumptions,
		"wall_s":      wall.Seconds(),
		"violations":  len(newViol),
	}
	b, _ := json.MarshalIndent(ev, "", " ")
	os.WriteFile(filepath.Join(dir, "evidence", p.ID+".json"), b, 0o644)

	fmt.Printf("%s %s seed=%d: %d cases, held=%d violated=%d (known=%d) inconclusive=%d skipped=%d, distinct non-trivial=%d, %.1fs\n",
		p.ID, tier, seed, len(cases), held, viol, viol-len(newViol), inconc, skipped, len(sigs), wall.Seconds())
	ck := make([]string, 0, len(counters))
	for k := range counters {
		ck = append(ck, k)
	}
	sort.Strings(ck)
	for _, k := range ck {
		fmt.Printf("  observed %-32s %d\n", k, counters[k])
	}
	for _, l := range outLines {
		fmt.Println(l)
	}
	return exit
}
