// Package hk is the harness side of /repo/verifhook: the pending-work
// counter, per-bus delivery accounting, programmable schedule points and the
// observation trace.
package hk

import (
	"reflect"
	"sync"
	"sync/atomic"

	"berty.tech/go-orbit-db/verifhook"
	"github.com/libp2p/go-libp2p/core/event"
	"github.com/libp2p/go-libp2p/p2p/host/eventbus"
)

// PointFunc is called when hooked code reaches a schedule point.
type PointFunc func(name string, args []interface{})

// ObserveFunc receives Observe calls.
type ObserveFunc func(name string, args []interface{})

type busAcct struct {
	mu       sync.Mutex
	counts   map[string]int64 // queued - processed, per subscriber name
	declared map[string]bool
	private  int64 // Emitting - Processed for buses without a tracer
	isTraced bool
	dead     bool
}

type H struct {
	pending int64 // Begin/End/Spawn
	gen     int64
	base    int64 // rebase offset

	mu     sync.RWMutex
	buses  map[interface{}]*busAcct
	points map[string]PointFunc
	obs    []ObserveFunc

	arrivals sync.Map // point name -> *int64
	kinds    sync.Map // kind -> *int64 (Begin count)
}

var Global = New()

func New() *H {
	return &H{buses: map[interface{}]*busAcct{}, points: map[string]PointFunc{}}
}

// Install registers the global handler with /repo/verifhook.
func Install() { verifhook.SetHandler(Global) }

func (h *H) bump() { atomic.AddInt64(&h.gen, 1) }

func (h *H) Begin(kind string) {
	atomic.AddInt64(&h.pending, 1)
	h.bump()
	c, _ := h.kinds.LoadOrStore(kind, new(int64))
	atomic.AddInt64(c.(*int64), 1)
}

func (h *H) End(kind string) {
	atomic.AddInt64(&h.pending, -1)
	h.bump()
}

func (h *H) acct(bus interface{}, create bool) *busAcct {
	if bus == nil || !reflect.TypeOf(bus).Comparable() {
		return nil
	}
	h.mu.RLock()
	a := h.buses[bus]
	h.mu.RUnlock()
	if a != nil || !create {
		return a
	}
	h.mu.Lock()
	defer h.mu.Unlock()
	if a = h.buses[bus]; a == nil {
		a = &busAcct{counts: map[string]int64{}, declared: map[string]bool{}}
		h.buses[bus] = a
	}
	return a
}

func (h *H) Consumer(bus interface{}, name string) {
	h.bump()
	a := h.acct(bus, true)
	if a == nil {
		return
	}
	a.mu.Lock()
	a.declared[name] = true
	a.mu.Unlock()
}

func (h *H) Processed(bus interface{}, name string) {
	h.bump()
	a := h.acct(bus, true)
	if a == nil {
		return
	}
	a.mu.Lock()
	if a.traced() {
		a.counts[name]--
	} else {
		a.private--
	}
	a.mu.Unlock()
}

func (h *H) Emitting(bus interface{}) {
	h.bump()
	a := h.acct(bus, true)
	if a == nil {
		return
	}
	a.mu.Lock()
	if !a.traced() {
		a.private++
	}
	a.mu.Unlock()
}

// traced is set by NewBus.
func (a *busAcct) traced() bool { return a.isTraced }

func (h *H) Point(name string, args ...interface{}) {
	h.bump()
	c, _ := h.arrivals.LoadOrStore(name, new(int64))
	atomic.AddInt64(c.(*int64), 1)
	h.mu.RLock()
	f := h.points[name]
	h.mu.RUnlock()
	if f != nil {
		f(name, args)
	}
}

func (h *H) Observe(name string, args ...interface{}) {
	h.mu.RLock()
	obs := h.obs
	h.mu.RUnlock()
	for _, f := range obs {
		f(name, args)
	}
}

// SetPoint installs (or with nil removes) the handler of a schedule point.
func (h *H) SetPoint(name string, f PointFunc) {
	h.mu.Lock()
	if f == nil {
		delete(h.points, name)
	} else {
		h.points[name] = f
	}
	h.mu.Unlock()
}

func (h *H) ClearPoints() {
	h.mu.Lock()
	h.points = map[string]PointFunc{}
	h.mu.Unlock()
}

func (h *H) AddObserver(f ObserveFunc) {
	h.mu.Lock()
	h.obs = append(append([]ObserveFunc{}, h.obs...), f)
	h.mu.Unlock()
}

func (h *H) ClearObservers() {
	h.mu.Lock()
	h.obs = nil
	h.mu.Unlock()
}

// Arrivals returns how often each point has been reached.
func (h *H) Arrivals() map[string]int64 {
	out := map[string]int64{}
	h.arrivals.Range(func(k, v interface{}) bool {
		out[k.(string)] = atomic.LoadInt64(v.(*int64))
		return true
	})
	return out
}

// Pending is the number of hooked units of asynchronous work that exist.
func (h *H) Pending() int64 {
	n := atomic.LoadInt64(&h.pending) - atomic.LoadInt64(&h.base)
	h.mu.RLock()
	for _, a := range h.buses {
		a.mu.Lock()
		if !a.dead {
			if a.isTraced {
				for name, c := range a.counts {
					if a.declared[name] {
						n += c
					}
				}
			} else {
				n += a.private
			}
		}
		a.mu.Unlock()
	}
	h.mu.RUnlock()
	return n
}

// Detail describes the non-zero components of Pending (diagnostics).
func (h *H) Detail() map[string]int64 {
	out := map[string]int64{"hook": atomic.LoadInt64(&h.pending) - atomic.LoadInt64(&h.base)}
	h.mu.RLock()
	i := 0
	for _, a := range h.buses {
		a.mu.Lock()
		if !a.dead {
			for name, c := range a.counts {
				if a.declared[name] && c != 0 {
					out[name] += c
				}
			}
			if a.private != 0 {
				out["private"] += a.private
			}
		}
		a.mu.Unlock()
		i++
	}
	h.mu.RUnlock()
	return out
}

func (h *H) Generation() int64 { return atomic.LoadInt64(&h.gen) }

// Rebase makes the current value of Pending the new zero. Used only after a
// store was closed while its instance lives on (residue of events delivered
// to consumers that have exited).
func (h *H) Rebase() {
	p := h.Pending()
	atomic.AddInt64(&h.base, p)
}

// ForgetBus discards the accounting of a bus whose instance was closed.
func (h *H) ForgetBus(bus interface{}) {
	if a := h.acct(bus, false); a != nil {
		a.mu.Lock()
		a.dead = true
		a.mu.Unlock()
	}
}

// ForgetPrivate discards all accounting of untraced buses (stores closed).
func (h *H) ForgetPrivate() {
	h.mu.Lock()
	for k, a := range h.buses {
		if !a.isTraced {
			a.mu.Lock()
			a.dead = true
			a.mu.Unlock()
			delete(h.buses, k)
		}
	}
	h.mu.Unlock()
}

// Reset forgets everything (between cases in one process).
func (h *H) Reset() {
	atomic.StoreInt64(&h.pending, 0)
	atomic.StoreInt64(&h.base, 0)
	h.mu.Lock()
	h.buses = map[interface{}]*busAcct{}
	h.points = map[string]PointFunc{}
	h.obs = nil
	h.mu.Unlock()
	h.arrivals = sync.Map{}
}

// ---- traced buses ----

type tracer struct {
	a *busAcct
	h *H
}

func (t *tracer) EventEmitted(reflect.Type)         {}
func (t *tracer) AddSubscriber(reflect.Type)        {}
func (t *tracer) RemoveSubscriber(reflect.Type)     {}
func (t *tracer) SubscriberQueueLength(string, int) {}
func (t *tracer) SubscriberQueueFull(string, bool)  {}
func (t *tracer) SubscriberEventQueued(name string) {
	t.a.mu.Lock()
	t.a.counts[name]++
	t.a.mu.Unlock()
	t.h.bump()
}

// NewBus returns an event bus whose deliveries to declared consumers are
// counted in Pending.
func (h *H) NewBus() event.Bus {
	a := &busAcct{counts: map[string]int64{}, declared: map[string]bool{}, isTraced: true}
	bus := eventbus.NewBus(eventbus.WithMetricsTracer(&tracer{a: a, h: h}))
	h.mu.Lock()
	h.buses[bus] = a
	h.mu.Unlock()
	return bus
}
