package main

import (
	"encoding/json"
	"fmt"
	"math/rand"
	"sort"
	"strings"
	"sync"
	"sync/atomic"
	"time"

	"berty.tech/go-orbit-db/iface"

	"verifharness/fw"
	"verifharness/sim"
)

func init() {
	fw.Register(&fw.Property{
		ID:    "C17",
		Level: "exploration",
		Rule: "cases = 2-8 goroutines x 3-20 writes on ONE store (all three types, on-disk directory) with a schedule-point handler in {none, PRNG delays at write.after-append / write.after-persist / write.after-index, targeted: the writer that arrives first at write.after-append is held until another writer has passed write.after-persist, index-hold: one index rebuild is held at index.after-values while other writers proceed, index-inversion: the writer that persisted first refreshes the view only after a later writer has refreshed it}, some on a store preloaded with 120 entries; every other write goes to a key only its goroutine uses and is read back by that goroutine at once; document stores also use the batched write (PutBatch of 3 documents), in particular as the last writes of every second goroutine; one local-head write in three is slow (0.2-2 ms, 2-4 ms while a batched write is in flight), injected at the cache datastore, and if an older head is seen to land after a newer one the writers stop there so that the schedule ends with that pair; then close, reopen on the same directory and Load(-1). The arrival order at the points is recorded. 'lin' cases (one in three): 3-6 goroutines x 6-14 calls mixing writes (unique values) and reads on two contended keys of one key-value / document store, or Add and full listings of one event log, every call recorded at the API boundary with call and return times of one monotonic clock, handlers {none, PRNG delays, index-hold, index-inversion}; the recorded history is checked offline by porcupine against one last-writer-wins register per key / one append-only list. " +
			"distinct = hash(store type, goroutines, writes, handler, observed arrival-order signature); non-trivial = write calls really overlapped at the API boundary (a call started while another was in flight); the number of arrivals at write.after-append while another writer was between append and persist is reported separately",
		Assumptions: []string{"clean close before the restart (crashes are C05)", "one store instance per identity"},
		Cases:       c17Cases,
		Run:         c17Run,
		MinDistinct: map[string]int{"quick": 30, "thorough": 250},
		Batch:       8,
		Explain:     "oracle: every call that returned nil returned a distinct entry hash and is visible to a read issued by the same goroutine right afterwards; the listing after the writers finish contains all of them; after close, reopen and Load(-1) it still does; order extends happens-before and the view equals the replay. lin cases: the recorded call/return history of all goroutines has a linearization (a total order respecting real time in which every read returns the latest write, a refused document delete sees an absent key, a listing equals the adds so far); a checker timeout is inconclusive.",
	})
}

func c17Cases(tier string, seed int64) []fw.Case {
	n := 60
	if tier == "thorough" {
		n = 600
	}
	rng := rand.New(rand.NewSource(seed*613651349 + 17))
	hs := []string{"none", "delays", "targeted", "index-hold", "index-inversion"}
	var out []fw.Case
	for i := 0; i < n; i++ {
		out = append(out, fw.Case{Idx: i, Seed: rng.Int63(), P: map[string]interface{}{
			"type": storeTypes[i%3], "g": 2 + rng.Intn(7), "w": 3 + rng.Intn(18), "handler": hs[(i/3)%5], "preload": []int{0, 0, 120}[i%3],
		}})
	}
	// recorded call/return histories of concurrent readers and writers, checked for linearizability (c17lin.go)
	out = append(out, c17LinCases(tier, seed, len(out))...)
	return out
}

func c17Run(c fw.Case) fw.Verdict {
	if c.Str("mode", "") == "lin" {
		return c17LinRun(c)
	}
	e := NewEnv()
	defer e.Close()
	v := fw.Verdict{}
	typ, g, w, handler := c.Str("type", tKV), c.Int("g", 2), c.Int("w", 5), c.Str("handler", "none")
	// persisting a head may take a while: some local-heads writes are slow (PRNG), which widens whatever
	// window there is between appending an entry and persisting it as the head
	fc := newFaultCache()
	var batchInFlight int32
	crng := rand.New(rand.NewSource(c.Seed + 9))
	var cmu sync.Mutex
	var slowPuts int64
	fc.SlowPut = func(key string) time.Duration {
		if key != "/_localHeads" {
			return 0
		}
		cmu.Lock()
		defer cmu.Unlock()
		if atomic.LoadInt32(&batchInFlight) > 0 && crng.Intn(2) == 0 {
			// while a batched write is in flight head writes are slower still
			slowPuts++
			return time.Duration(2000+crng.Intn(2000)) * time.Microsecond
		}
		if crng.Intn(3) != 0 {
			return 0
		}
		slowPuts++
		return time.Duration(200+crng.Intn(1800)) * time.Microsecond
	}
	// observed at the datastore boundary: if a head write is overtaken (an older head lands after a newer
	// one) the writers stop right there, so that the schedule ends with that pair and the restart oracle
	// below decides whether an acknowledged write was lost
	var stopWrites int32
	var lastHeadTime, overtaken int64
	fc.AfterPut = func(key string, val []byte) {
		if key != "/_localHeads" {
			return
		}
		var hs []struct {
			Clock struct {
				Time int64 `json:"time"`
			} `json:"clock"`
		}
		if json.Unmarshal(val, &hs) != nil || len(hs) == 0 {
			return
		}
		cmu.Lock()
		if hs[0].Clock.Time < lastHeadTime {
			overtaken++
			atomic.StoreInt32(&stopWrites, 1)
		} else {
			lastHeadTime = hs[0].Clock.Time
		}
		cmu.Unlock()
	}
	P, err := e.W.AddPeer(sim.PeerOpts{OnDisk: true, Cache: fc})
	if err != nil {
		return fw.Verdict{Status: fw.Inconclusive, What: err.Error()}
	}
	db, err := e.CreateDB("c17", typ, P, nil, nil)
	if err != nil {
		return fw.Verdict{Status: fw.Inconclusive, What: "create: " + err.Error()}
	}
	s := db.Stores[P.Idx]

	for i := 0; i < c.Int("preload", 0); i++ { // a longer log makes every index rebuild take longer
		if _, err := ApplyOp(bg, s, honestOp(typ, 100000+i)); err != nil {
			return fw.Verdict{Status: fw.Inconclusive, What: "preload: " + err.Error()}
		}
	}
	ih := &indexHolder{}
	if handler == "index-hold" {
		ih.install(e)
		ih.set(true)
	}
	var ryw *Violation
	var mu sync.Mutex
	var arrivals []byte
	between := 0 // writers between append and persist
	overlaps := 0
	var heldCh chan struct{}
	hrng := rand.New(rand.NewSource(c.Seed + 9))
	note := func(b byte) {
		mu.Lock()
		if len(arrivals) < 4000 {
			arrivals = append(arrivals, b)
		}
		mu.Unlock()
	}
	e.H.SetPoint("write.after-append", func(string, []interface{}) {
		note('a')
		mu.Lock()
		if between > 0 {
			overlaps++
		}
		between++
		var wait chan struct{}
		d := time.Duration(0)
		switch handler {
		case "delays":
			d = time.Duration(hrng.Intn(400)) * time.Microsecond
		case "targeted":
			if heldCh == nil {
				heldCh = make(chan struct{})
				wait = heldCh
			}
		}
		mu.Unlock()
		if d > 0 {
			time.Sleep(d)
		}
		if wait != nil {
			select {
			case <-wait:
			case <-time.After(8 * time.Millisecond):
				mu.Lock()
				if heldCh == wait {
					heldCh = nil
				}
				mu.Unlock()
			}
		}
	})
	var invCh chan struct{}
	e.H.SetPoint("write.after-persist", func(string, []interface{}) {
		note('p')
		mu.Lock()
		between--
		if heldCh != nil {
			close(heldCh)
			heldCh = nil
		}
		var inv chan struct{}
		if handler == "index-inversion" && invCh == nil {
			// this writer appended first; it refreshes the view only after a later writer has refreshed it
			invCh = make(chan struct{})
			inv = invCh
		}
		if inv != nil {
			mu.Unlock()
			select {
			case <-inv:
			case <-time.After(8 * time.Millisecond):
				mu.Lock()
				if invCh == inv {
					invCh = nil
				}
				mu.Unlock()
			}
			mu.Lock()
		}
		d := time.Duration(0)
		if handler == "delays" {
			d = time.Duration(hrng.Intn(200)) * time.Microsecond
		}
		mu.Unlock()
		if d > 0 {
			time.Sleep(d)
		}
	})
	if handler != "index-hold" {
		e.H.SetPoint("write.after-index", func(string, []interface{}) {
			note('i')
			mu.Lock()
			if invCh != nil {
				close(invCh)
				invCh = nil
			}
			mu.Unlock()
		})
	}

	type ack struct {
		hash string
		g, i int
	}
	var acks []ack
	var amu sync.Mutex
	var wg sync.WaitGroup
	errs := 0
	inflight, apiOverlaps := 0, 0
	for gi := 0; gi < g; gi++ {
		wg.Add(1)
		go func(gi int) {
			defer wg.Done()
			for i := 0; i < w && atomic.LoadInt32(&stopWrites) == 0; i++ {
				op := honestOp(typ, gi*1000+i)
				own := i%2 == 1 // every other write goes to a key only this goroutine uses: read-your-writes is then decidable
				switch typ {
				case tKV:
					op.Key = fmt.Sprintf("k%d", (gi+i)%3) // contended keys
					if own {
						op.Key = fmt.Sprintf("own-g%d", gi)
					}
				case tDocs:
					if own {
						id := fmt.Sprintf("own-g%d", gi)
						op = Op{Kind: "put", Key: id, Docs: []Doc{{ID: id, N: gi*1000 + i, Tag: "own"}}}
						if i%4 == 3 || (i >= w-2 && gi%2 == 0) {
							// the batched write path: several entries appended by one call
							op = Op{Kind: "putbatch", Key: id, Docs: []Doc{{ID: id, N: gi*1000 + i, Tag: "own"}, {ID: fmt.Sprintf("b%d", (gi+i)%3), N: gi*1000 + i, Tag: "batch"}, {ID: fmt.Sprintf("own2-g%d", gi), N: gi*1000 + i, Tag: "own"}}}
						}
					}
				}
				amu.Lock()
				if inflight > 0 {
					apiOverlaps++
				}
				inflight++
				amu.Unlock()
				if op.Kind == "putbatch" {
					atomic.AddInt32(&batchInFlight, 1)
				}
				res, err := ApplyOp(bg, s, op)
				if op.Kind == "putbatch" {
					atomic.AddInt32(&batchInFlight, -1)
				}
				if err == nil {
					// the call returned: its own entry must be visible to the caller at once
					var seen bool
					switch st := s.(type) {
					case iface.KeyValueStore:
						got, _ := st.Get(bg, op.Key)
						seen = !own || string(got) == string(op.Val)
					case iface.DocumentStore:
						seen = true
						if own {
							docs, _ := st.Get(bg, op.Key, nil)
							seen = false
							for _, d := range docs {
								if m, ok := d.(map[string]interface{}); ok && int(m["n"].(float64)) == op.Docs[0].N {
									seen = true
								}
							}
						}
					case iface.EventLogStore:
						_, gerr := st.Get(bg, res.GetEntry().GetHash())
						seen = gerr == nil
					}
					if !seen {
						amu.Lock()
						if ryw == nil {
							ryw = &Violation{"acknowledged-write-not-visible", fmt.Sprintf("write %d of goroutine %d (%s) returned success but a read issued by the same goroutine right afterwards does not show it", i, gi, op)}
						}
						amu.Unlock()
					}
				}
				amu.Lock()
				inflight--
				if err != nil {
					errs++
				} else {
					acks = append(acks, ack{res.GetEntry().GetHash().String(), gi, i})
				}
				amu.Unlock()
			}
		}(gi)
	}
	wg.Wait()
	ih.set(false)
	e.W.Settle()
	e.H.ClearPoints()
	v.Count("index_rebuilds_held", int64(ih.Holds))
	cmu.Lock()
	v.Count("slow_local_head_writes", slowPuts)
	v.Count("head_writes_overtaken_by_an_older_head", overtaken)
	cmu.Unlock()
	if ryw != nil {
		return fw.Verdict{Status: fw.Violated, Key: ryw.Key, What: ryw.What + fmt.Sprintf(" (handler %s, %d goroutines)", handler, g), NonTrivial: true, Sig: fw.HashSig(typ, g, w, handler, c.Seed)}
	}
	mu.Lock()
	sigArr := fw.HashSig(string(arrivals))
	ov := overlaps
	mu.Unlock()
	v.Count("acknowledged_writes", int64(len(acks)))
	v.Count("write_errors", int64(errs))
	v.Count("overlapping_arrivals", int64(ov))
	v.Sig = fw.HashSig(typ, g, w, handler) + sigArr
	v.Count("calls_started_while_another_in_flight", int64(apiOverlaps))
	v.NonTrivial = apiOverlaps > 0
	// distinct hashes
	seen := map[string]ack{}
	for _, a := range acks {
		if o, dup := seen[a.hash]; dup {
			return fw.Verdict{Status: fw.Violated, Key: "duplicate-entry-acknowledged", NonTrivial: true, Sig: v.Sig,
				What: fmt.Sprintf("write %d of goroutine %d and write %d of goroutine %d were both acknowledged with entry %s", o.i, o.g, a.i, a.g, short(a.hash))}
		}
		seen[a.hash] = a
	}
	sn := TakeSnap(typ, s, P.Idx)
	have := map[string]bool{}
	for _, h := range sn.Order {
		have[h] = true
	}
	for _, a := range acks {
		if !have[a.hash] {
			return fw.Verdict{Status: fw.Violated, Key: "acknowledged-write-not-visible", NonTrivial: true, Sig: v.Sig,
				What: fmt.Sprintf("acknowledged write %d of goroutine %d (%s) is not in the listing (%d of %d listed)", a.i, a.g, short(a.hash), len(sn.Order), len(acks))}
		}
	}
	if vio := checkSnapAgainstModel(typ, sn.Entries, sn, &v); vio != nil {
		return fw.Verdict{Status: fw.Violated, Key: vio.Key, What: vio.What, NonTrivial: true, Sig: v.Sig}
	}
	// restart
	P.Stop()
	e.W.Settle()
	if err := P.Start(); err != nil {
		return fw.Verdict{Status: fw.Inconclusive, What: "restart: " + err.Error()}
	}
	if err := e.OpenOn(db, P); err != nil {
		return fw.Verdict{Status: fw.Inconclusive, What: "reopen: " + err.Error()}
	}
	s2 := db.Stores[P.Idx]
	if err := s2.Load(bg, -1); err != nil {
		return fw.Verdict{Status: fw.Violated, Key: "load-after-restart-failed", What: err.Error(), NonTrivial: true, Sig: v.Sig}
	}
	e.W.Settle()
	sn2 := TakeSnap(typ, s2, P.Idx)
	have2 := map[string]bool{}
	for _, h := range sn2.Order {
		have2[h] = true
	}
	var lost []string
	for _, a := range acks {
		if !have2[a.hash] {
			lost = append(lost, fmt.Sprintf("g%d#%d", a.g, a.i))
		}
	}
	v.Count("recovered_after_restart", int64(len(sn2.Order)))
	if len(lost) > 0 {
		sort.Strings(lost)
		return fw.Verdict{Status: fw.Violated, Key: "acknowledged-write-lost-after-restart", NonTrivial: true, Sig: v.Sig,
			What: fmt.Sprintf("after close, reopen and Load(-1) %d of %d acknowledged writes are missing (%s); handler %s, %d goroutines", len(lost), len(acks), strings.Join(lost[:minInt(len(lost), 8)], ","), handler, g)}
	}
	if vio := checkSnapAgainstModel(typ, sn2.Entries, sn2, &v); vio != nil {
		return fw.Verdict{Status: fw.Violated, Key: vio.Key + "/after-restart", What: vio.What, NonTrivial: true, Sig: v.Sig}
	}
	if sn2.View != sn.View {
		return fw.Verdict{Status: fw.Violated, Key: "state-differs-after-restart", NonTrivial: true, Sig: v.Sig, What: "visible state after restart differs from the state before it"}
	}
	v.Status = fw.Held
	v.Sample = map[string]interface{}{"type": typ, "goroutines": g, "writes_each": w, "handler": handler, "overlapping_arrivals": ov, "acknowledged": len(acks)}
	return v
}
