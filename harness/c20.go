package main

import (
	"bytes"
	"context"
	"crypto/rand"
	"fmt"
	mrand "math/rand"
	"sort"
	"strings"
	"sync"
	"sync/atomic"
	"time"

	"berty.tech/go-orbit-db/iface"
	"berty.tech/go-orbit-db/pubsub/directchannel"
	"berty.tech/go-orbit-db/pubsub/oneonone"
	"berty.tech/go-orbit-db/pubsub/pubsubcoreapi"
	"berty.tech/go-orbit-db/pubsub/pubsubraw"
	"github.com/ipfs/boxo/path"
	coreiface "github.com/ipfs/kubo/core/coreiface"
	"github.com/ipfs/kubo/core/coreiface/options"
	p2ppubsub "github.com/libp2p/go-libp2p-pubsub"
	"github.com/libp2p/go-libp2p/core/crypto"
	"github.com/libp2p/go-libp2p/core/host"
	"github.com/libp2p/go-libp2p/core/network"
	"github.com/libp2p/go-libp2p/core/peer"
	"github.com/libp2p/go-libp2p/core/protocol"
	mocknet "github.com/libp2p/go-libp2p/p2p/net/mock"
	"go.uber.org/zap"

	"verifharness/fw"
)

func init() {
	fw.Register(&fw.Property{
		ID:    "C20",
		Level: "exploration",
		Rule: "cases per adapter: (a) pubsubcoreapi over a SCRIPTED coreiface.PubSubAPI: the i-th Peers call returns the i-th of 5-30 PRNG membership sets (including swaps that keep the size equal and empty sets); scripted subscription streams mixing own and foreign senders with payloads 0 B - 64 KiB; (b) oneonone: two channel sets over one in-memory pubsub hub (which, like real pubsub, echoes a peer its own messages), both Connect, payloads with unique ids sent from both ends in a PRNG interleaving, also with concurrent Connect calls, and in two cases of three A's Connect context ends (its store is closed) and A connects again with a new one, twice, with a further exchange each time; (c) directchannel over in-memory libp2p (mocknet) hosts: payload sizes {0, 1, 1 KiB, 4 MiB-1, 4 MiB, 4 MiB+1, 6 MiB} and PRNG sizes, concurrent senders, in every second case over streams that hand each write to the transport in PRNG pieces of 1 B - 64 KiB (a stream has no message boundaries); (d) pubsubraw over real go-libp2p-pubsub on mocknet, including a remote peer that leaves the topic and joins it again. " +
			"distinct = hash(adapter, script); non-trivial = adapter (a): >= 3 membership changes incl. a leave; (b),(c),(d): >= 5 payloads delivered and the closing marker payload arrived",
		Assumptions: []string{"scripted coreiface.PubSubAPI / in-memory hub / mocknet stand in for the network", "loss is decided only after a marker payload sent afterwards on the same path has arrived and the counts are stable (marker never arriving => inconclusive)"},
		Cases:       c20Cases,
		Run:         c20Run,
		MinDistinct: map[string]int{"quick": 40, "thorough": 400},
		Batch:       10,
		CaseTimeout: 180 * time.Second,
		Explain:     "oracle: join/leave events equal the successive set differences, each once; own messages never delivered, foreign exactly once, byte-identical, in order; both ends derive the same channel name; each payload delivered once, intact, attributed to the remote peer; oversize frames are refused and the next normal payload still arrives.",
	})
}

func c20Cases(tier string, seed int64) []fw.Case {
	n := map[string]int{"coreapi": 30, "oneonone": 6, "direct": 12, "raw": 2}
	if tier == "thorough" {
		n = map[string]int{"coreapi": 300, "oneonone": 40, "direct": 100, "raw": 12}
	}
	rng := mrand.New(mrand.NewSource(seed*1000003 + 20))
	var out []fw.Case
	idx := 0
	for _, ad := range []string{"coreapi", "oneonone", "direct", "raw"} {
		for i := 0; i < n[ad]; i++ {
			out = append(out, fw.Case{Idx: idx, Seed: rng.Int63(), Kind: ad, P: map[string]interface{}{"i": i}})
			idx++
		}
	}
	return out
}

func c20Run(c fw.Case) fw.Verdict {
	switch c.Kind {
	case "coreapi":
		return c20CoreAPI(c)
	case "oneonone":
		return c20OneOnOne(c)
	case "direct":
		return c20Direct(c)
	default:
		return c20Raw(c)
	}
}

func newPeerID() peer.ID {
	_, pub, _ := crypto.GenerateEd25519Key(rand.Reader)
	id, _ := peer.IDFromPublicKey(pub)
	return id
}

// ---------- fakes ----------

type fakeKey struct{ id peer.ID }

func (k fakeKey) Name() string    { return "self" }
func (k fakeKey) Path() path.Path { return nil }
func (k fakeKey) ID() peer.ID     { return k.id }

type fakeKeyAPI struct {
	coreiface.KeyAPI
	id peer.ID
}

func (k fakeKeyAPI) Self(context.Context) (coreiface.Key, error) { return fakeKey{k.id}, nil }

type fakeSwarm struct{ coreiface.SwarmAPI }

func (fakeSwarm) Connect(context.Context, peer.AddrInfo) error { return nil }

type fakeAPI struct {
	coreiface.CoreAPI
	ps coreiface.PubSubAPI
	id peer.ID
}

func (a *fakeAPI) PubSub() coreiface.PubSubAPI { return a.ps }
func (a *fakeAPI) Key() coreiface.KeyAPI       { return fakeKeyAPI{id: a.id} }
func (a *fakeAPI) Swarm() coreiface.SwarmAPI   { return fakeSwarm{} }

type fakeMsg struct {
	from peer.ID
	data []byte
}

func (m fakeMsg) From() peer.ID    { return m.from }
func (m fakeMsg) Data() []byte     { return m.data }
func (m fakeMsg) Seq() []byte      { return nil }
func (m fakeMsg) Topics() []string { return nil }

// scripted pubsub API for adapter (a)
type scriptPS struct {
	mu       sync.Mutex
	sets     [][]peer.ID
	calls    int
	msgs     []fakeMsg
	next     int
	delivery chan struct{}
}

func (s *scriptPS) Ls(context.Context) ([]string, error) { return nil, nil }
func (s *scriptPS) Peers(ctx context.Context, _ ...options.PubSubPeersOption) ([]peer.ID, error) {
	s.mu.Lock()
	defer s.mu.Unlock()
	i := s.calls
	s.calls++
	if i >= len(s.sets) {
		i = len(s.sets) - 1
	}
	return append([]peer.ID{}, s.sets[i]...), nil
}
func (s *scriptPS) Publish(context.Context, string, []byte) error { return nil }
func (s *scriptPS) Subscribe(context.Context, string, ...options.PubSubSubscribeOption) (coreiface.PubSubSubscription, error) {
	return &scriptSub{s: s}, nil
}

type scriptSub struct{ s *scriptPS }

func (ss *scriptSub) Close() error { return nil }
func (ss *scriptSub) Next(ctx context.Context) (coreiface.PubSubMessage, error) {
	ss.s.mu.Lock()
	if ss.s.next < len(ss.s.msgs) {
		m := ss.s.msgs[ss.s.next]
		ss.s.next++
		ss.s.mu.Unlock()
		return m, nil
	}
	ss.s.mu.Unlock()
	<-ctx.Done()
	return nil, ctx.Err()
}

func c20CoreAPI(c fw.Case) fw.Verdict {
	rng := mrand.New(mrand.NewSource(c.Seed))
	v := fw.Verdict{}
	self := newPeerID()
	pool := []peer.ID{}
	for i := 0; i < 6; i++ {
		pool = append(pool, newPeerID())
	}
	// membership script
	n := 5 + rng.Intn(26)
	var sets [][]peer.ID
	cur := map[int]bool{}
	for i := 0; i < n; i++ {
		switch rng.Intn(6) {
		case 0: // swap keeping the size equal
			var in, outl []int
			for k := range pool {
				if cur[k] {
					in = append(in, k)
				} else {
					outl = append(outl, k)
				}
			}
			if len(in) > 0 && len(outl) > 0 {
				delete(cur, in[rng.Intn(len(in))])
				cur[outl[rng.Intn(len(outl))]] = true
			}
		case 1:
			cur = map[int]bool{}
		case 2: // unchanged
		default:
			k := rng.Intn(len(pool))
			if cur[k] {
				delete(cur, k)
			} else {
				cur[k] = true
			}
		}
		var s []peer.ID
		for _, k := range rng.Perm(len(pool)) {
			if cur[k] {
				s = append(s, pool[k])
			}
		}
		sets = append(sets, s)
	}
	// message script
	var msgs []fakeMsg
	var wantMsgs [][]byte
	for i := 0; i < 5+rng.Intn(40); i++ {
		l := rng.Intn(64)
		if rng.Intn(8) == 0 {
			l = rng.Intn(65536)
		}
		if rng.Intn(10) == 0 {
			l = 0
		}
		d := make([]byte, l)
		rng.Read(d)
		from := pool[rng.Intn(len(pool))]
		if rng.Intn(3) == 0 {
			from = self
		} else {
			wantMsgs = append(wantMsgs, d)
		}
		msgs = append(msgs, fakeMsg{from, d})
	}
	ps := &scriptPS{sets: sets, msgs: msgs}
	api := &fakeAPI{ps: ps, id: self}
	ad := pubsubcoreapi.NewPubSub(api, self, time.Millisecond, zap.NewNop(), nil)
	ctx, cancel := context.WithCancel(bg)
	defer cancel()
	topic, err := ad.TopicSubscribe(ctx, "t")
	if err != nil {
		return fw.Verdict{Status: fw.Inconclusive, What: err.Error()}
	}
	pch, err := topic.WatchPeers(ctx)
	if err != nil {
		return fw.Verdict{Status: fw.Inconclusive, What: err.Error()}
	}
	mch, err := topic.WatchMessages(ctx)
	if err != nil {
		return fw.Verdict{Status: fw.Inconclusive, What: err.Error()}
	}
	// expected membership events, per poll
	type step struct{ join, leave map[peer.ID]bool }
	var steps []step
	prev := map[peer.ID]bool{}
	changes, leaves := 0, 0
	for _, s := range sets {
		st := step{map[peer.ID]bool{}, map[peer.ID]bool{}}
		now := map[peer.ID]bool{}
		for _, p := range s {
			now[p] = true
			if !prev[p] {
				st.join[p] = true
				changes++
			}
		}
		for p := range prev {
			if !now[p] {
				st.leave[p] = true
				changes++
				leaves++
			}
		}
		prev = now
		steps = append(steps, st)
	}
	// the adapter's channel holds 32 events: drain it while the script is consumed
	var evmu sync.Mutex
	var evs []interface{}
	go func() {
		for ev := range pch {
			evmu.Lock()
			evs = append(evs, ev)
			evmu.Unlock()
		}
	}()
	// wait until the script has been consumed (state-based: number of Peers calls)
	deadline := time.Now().Add(60 * time.Second)
	for {
		ps.mu.Lock()
		calls := ps.calls
		ps.mu.Unlock()
		if calls >= len(sets)+3 {
			break
		}
		if time.Now().After(deadline) {
			return fw.Verdict{Status: fw.Inconclusive, What: "adapter stopped polling"}
		}
		time.Sleep(time.Millisecond)
	}
	var got []string
	time.Sleep(3 * time.Millisecond) // the last poll's events reach the drainer
	evmu.Lock()
	evs = append([]interface{}{}, evs...)
	evmu.Unlock()
	i := 0
	for si, st := range steps {
		need := len(st.join) + len(st.leave)
		j, l := map[peer.ID]bool{}, map[peer.ID]bool{}
		for k := 0; k < need; k++ {
			if i >= len(evs) {
				return fw.Verdict{Status: fw.Violated, Key: "membership-event-missing", NonTrivial: true,
					What: fmt.Sprintf("membership snapshot %d of %d changes %d members but only %d of the expected events arrived (%d events in total, %d expected)", si, len(sets), need, k, len(evs), changes)}
			}
			switch e := evs[i].(type) {
			case *iface.EventPubSubJoin:
				if j[e.Peer] {
					return fw.Verdict{Status: fw.Violated, Key: "membership-event-duplicated", NonTrivial: true, What: fmt.Sprintf("join of %s reported twice for snapshot %d", e.Peer, si)}
				}
				j[e.Peer] = true
				got = append(got, "+"+e.Peer.String()[len(e.Peer.String())-4:])
			case *iface.EventPubSubLeave:
				if l[e.Peer] {
					return fw.Verdict{Status: fw.Violated, Key: "membership-event-duplicated", NonTrivial: true, What: fmt.Sprintf("leave of %s reported twice for snapshot %d", e.Peer, si)}
				}
				l[e.Peer] = true
				got = append(got, "-"+e.Peer.String()[len(e.Peer.String())-4:])
			}
			i++
		}
		for p := range st.join {
			if !j[p] {
				return fw.Verdict{Status: fw.Violated, Key: "membership-event-wrong", NonTrivial: true, What: fmt.Sprintf("snapshot %d: peer %s joined but the events say %v", si, p, got)}
			}
		}
		for p := range st.leave {
			if !l[p] {
				return fw.Verdict{Status: fw.Violated, Key: "membership-event-wrong", NonTrivial: true, What: fmt.Sprintf("snapshot %d: peer %s left but the events say %v", si, p, got)}
			}
		}
	}
	if i != len(evs) {
		return fw.Verdict{Status: fw.Violated, Key: "membership-event-spurious", NonTrivial: true, What: fmt.Sprintf("%d membership events for %d changes", len(evs), changes)}
	}
	v.Count("membership_changes_checked", int64(changes))
	// messages
	var gotMsgs [][]byte
	deadline = time.Now().Add(30 * time.Second)
	for len(gotMsgs) < len(wantMsgs) && time.Now().Before(deadline) {
		select {
		case m := <-mch:
			gotMsgs = append(gotMsgs, m.Content)
		case <-time.After(50 * time.Millisecond):
			ps.mu.Lock()
			consumed := ps.next >= len(ps.msgs)
			ps.mu.Unlock()
			if consumed && len(mch) == 0 {
				deadline = time.Now()
			}
		}
	}
	time.Sleep(2 * time.Millisecond)
	for len(mch) > 0 {
		gotMsgs = append(gotMsgs, (<-mch).Content)
	}
	if len(gotMsgs) != len(wantMsgs) {
		return fw.Verdict{Status: fw.Violated, Key: "pubsub-message-count", NonTrivial: true, What: fmt.Sprintf("%d foreign messages in the stream (%d with own), %d delivered", len(wantMsgs), len(msgs), len(gotMsgs))}
	}
	for k := range wantMsgs {
		if !bytes.Equal(wantMsgs[k], gotMsgs[k]) {
			return fw.Verdict{Status: fw.Violated, Key: "pubsub-message-altered", NonTrivial: true, What: fmt.Sprintf("message %d differs from what the remote peer published (or an own message was delivered)", k)}
		}
	}
	v.Count("pubsub_messages_checked", int64(len(msgs)))
	v.Status = fw.Held
	v.NonTrivial = changes >= 3 && leaves >= 1
	v.Sig = fw.HashSig("coreapi", c.Seed)
	sz := []int{}
	for _, s := range sets {
		sz = append(sz, len(s))
	}
	v.Sample = map[string]interface{}{"adapter": "pubsubcoreapi", "membership_set_sizes": sz, "events": strings.Join(got, " "), "messages": len(msgs), "foreign": len(wantMsgs)}
	return v
}

// ---------- in-memory hub for oneonone ----------

type hub struct {
	mu     sync.Mutex
	subs   map[string][]*hubSub
	topics map[peer.ID][]string
}

type hubSub struct {
	id peer.ID
	ch chan fakeMsg
}

type hubAPI struct {
	h  *hub
	id peer.ID
	// delaySubscribe widens the window between the existence check and the subscription
	delay time.Duration
}

func (a *hubAPI) Ls(context.Context) ([]string, error) { return nil, nil }
func (a *hubAPI) Peers(ctx context.Context, opts ...options.PubSubPeersOption) ([]peer.ID, error) {
	o, _ := options.PubSubPeersOptions(opts...)
	a.h.mu.Lock()
	defer a.h.mu.Unlock()
	var out []peer.ID
	for _, s := range a.h.subs[o.Topic] {
		if s.id != a.id {
			out = append(out, s.id)
		}
	}
	return out, nil
}
func (a *hubAPI) Publish(ctx context.Context, topic string, data []byte) error {
	a.h.mu.Lock()
	subs := append([]*hubSub{}, a.h.subs[topic]...)
	a.h.mu.Unlock()
	for _, s := range subs {
		select {
		case s.ch <- fakeMsg{a.id, append([]byte{}, data...)}:
		case <-ctx.Done():
			return ctx.Err()
		}
	}
	return nil
}
func (a *hubAPI) Subscribe(ctx context.Context, topic string, _ ...options.PubSubSubscribeOption) (coreiface.PubSubSubscription, error) {
	if a.delay > 0 {
		time.Sleep(a.delay)
	}
	s := &hubSub{id: a.id, ch: make(chan fakeMsg, 4096)}
	a.h.mu.Lock()
	a.h.subs[topic] = append(a.h.subs[topic], s)
	a.h.topics[a.id] = append(a.h.topics[a.id], topic)
	a.h.mu.Unlock()
	return &hubSubscription{s: s, h: a.h, topic: topic}, nil
}

type hubSubscription struct {
	s     *hubSub
	h     *hub
	topic string
}

func (hs *hubSubscription) Close() error { return nil }
func (hs *hubSubscription) Next(ctx context.Context) (coreiface.PubSubMessage, error) {
	select {
	case m := <-hs.s.ch:
		return m, nil
	case <-ctx.Done():
		return nil, ctx.Err()
	}
}

type recEmitter struct {
	mu   sync.Mutex
	got  []iface.EventPubSubPayload
	seen chan struct{}
}

func (r *recEmitter) Emit(e *iface.EventPubSubPayload) error {
	r.mu.Lock()
	r.got = append(r.got, iface.EventPubSubPayload{Payload: append([]byte{}, e.Payload...), Peer: e.Peer})
	r.mu.Unlock()
	return nil
}
func (r *recEmitter) Close() error { return nil }
func (r *recEmitter) snapshot() []iface.EventPubSubPayload {
	r.mu.Lock()
	defer r.mu.Unlock()
	return append([]iface.EventPubSubPayload{}, r.got...)
}

// checkDelivery compares what an emitter received with what the remote end sent.
func checkDelivery(name string, got []iface.EventPubSubPayload, sent [][]byte, remote, self peer.ID) *Violation {
	count := map[string]int{}
	for _, g := range got {
		count[string(g.Payload)]++
		if g.Peer == self {
			return &Violation{"payload-attributed-to-self", fmt.Sprintf("%s received a payload attributed to itself", name)}
		}
		if g.Peer != remote {
			return &Violation{"payload-wrong-attribution", fmt.Sprintf("%s received a payload attributed to %s, sender was %s", name, g.Peer, remote)}
		}
	}
	want := map[string]bool{}
	for _, s := range sent {
		want[string(s)] = true
		switch n := count[string(s)]; {
		case n == 0:
			return &Violation{"payload-lost", fmt.Sprintf("%s never received a %d-byte payload sent by the remote peer", name, len(s))}
		case n > 1:
			return &Violation{"payload-duplicated", fmt.Sprintf("%s received a %d-byte payload %d times", name, len(s), n)}
		}
	}
	for k := range count {
		if !want[k] {
			return &Violation{"payload-not-sent-by-remote", fmt.Sprintf("%s received a %d-byte payload the remote peer never sent (own message or altered bytes)", name, len(k))}
		}
	}
	return nil
}

func uniquePayload(rng *mrand.Rand, tag string, i, size int) []byte {
	hd := []byte(fmt.Sprintf("%s-%d-", tag, i))
	if size < len(hd) {
		return hd // payloads stay unique
	}
	b := make([]byte, size)
	rng.Read(b)
	copy(b, hd)
	return b
}

func waitStable(f func() int, want int, watchdog time.Duration) bool {
	deadline := time.Now().Add(watchdog)
	for time.Now().Before(deadline) {
		if f() >= want {
			// let duplicates show up
			n := f()
			time.Sleep(30 * time.Millisecond)
			if f() == n {
				return true
			}
		}
		time.Sleep(2 * time.Millisecond)
	}
	return false
}

func c20OneOnOne(c fw.Case) fw.Verdict {
	rng := mrand.New(mrand.NewSource(c.Seed))
	v := fw.Verdict{}
	h := &hub{subs: map[string][]*hubSub{}, topics: map[peer.ID][]string{}}
	idA, idB := newPeerID(), newPeerID()
	concurrentConnect := c.Int("i", 0)%2 == 1
	apiA := &fakeAPI{ps: &hubAPI{h: h, id: idA}, id: idA}
	apiB := &fakeAPI{ps: &hubAPI{h: h, id: idB}, id: idB}
	if concurrentConnect {
		apiA.ps.(*hubAPI).delay = 20 * time.Millisecond
		apiB.ps.(*hubAPI).delay = 45 * time.Millisecond // the remote end joins the channel later than the local one
	}
	ctx, cancel := context.WithCancel(bg)
	defer cancel()
	emA, emB := &recEmitter{}, &recEmitter{}
	chA, err := oneonone.NewChannelFactory(apiA)(ctx, emA, nil)
	if err != nil {
		return fw.Verdict{Status: fw.Inconclusive, What: err.Error()}
	}
	chB, err := oneonone.NewChannelFactory(apiB)(ctx, emB, nil)
	if err != nil {
		return fw.Verdict{Status: fw.Inconclusive, What: err.Error()}
	}
	defer chA.Close()
	defer chB.Close()
	var wg sync.WaitGroup
	ctxA, cancelA := context.WithCancel(ctx)
	defer func() { cancelA() }()
	nconn := 1
	if concurrentConnect {
		nconn = 3 // several stores shared with one peer connect at the same time
	}
	errs := make(chan error, 8)
	early := make(chan []byte, 8)
	for i := 0; i < nconn; i++ {
		wg.Add(2)
		go func(i int) {
			defer wg.Done()
			err := chA.Connect(ctxA, idB)
			if err == nil && concurrentConnect {
				// what a store does with its channel: it sends its heads as soon as Connect has returned
				p := uniquePayload(mrand.New(mrand.NewSource(c.Seed+int64(i))), "A-early", 1000+i, 64)
				if chA.Send(ctx, idB, p) == nil {
					early <- p
				}
			}
			errs <- err
		}(i)
		go func() { defer wg.Done(); errs <- chB.Connect(ctx, idA) }()
	}
	wg.Wait()
	close(errs)
	close(early)
	for err := range errs {
		if err != nil {
			return fw.Verdict{Status: fw.Inconclusive, What: "connect: " + err.Error()}
		}
	}
	// channel name symmetric
	h.mu.Lock()
	ta, tb := append([]string{}, h.topics[idA]...), append([]string{}, h.topics[idB]...)
	h.mu.Unlock()
	for _, x := range ta {
		for _, y := range tb {
			if x != y {
				return fw.Verdict{Status: fw.Violated, Key: "channel-name-asymmetric", NonTrivial: true, What: fmt.Sprintf("the two ends derive different channel names: %s vs %s", x, y)}
			}
		}
	}
	var sentA, sentB [][]byte
	for p := range early {
		sentA = append(sentA, p)
	}
	v.Count("oneonone_payloads_sent_right_after_connect", int64(len(sentA)))
	exchange := func(round int) *fw.Verdict {
		n := 10 + rng.Intn(40)
		for i := 0; i < n; i++ {
			size := rng.Intn(200)
			if rng.Intn(10) == 0 {
				size = rng.Intn(1 << 20)
			}
			if rng.Intn(2) == 0 {
				p := uniquePayload(rng, fmt.Sprintf("A%d", round), i, size)
				sentA = append(sentA, p)
				if err := chA.Send(ctx, idB, p); err != nil {
					return &fw.Verdict{Status: fw.Inconclusive, What: "send: " + err.Error()}
				}
			} else {
				p := uniquePayload(rng, fmt.Sprintf("B%d", round), i, size)
				sentB = append(sentB, p)
				if err := chB.Send(ctx, idA, p); err != nil {
					return &fw.Verdict{Status: fw.Inconclusive, What: "send: " + err.Error()}
				}
			}
		}
		// markers
		mA, mB := []byte(fmt.Sprintf("marker-from-A-%d", round)), []byte(fmt.Sprintf("marker-from-B-%d", round))
		sentA, sentB = append(sentA, mA), append(sentB, mB)
		_ = chA.Send(ctx, idB, mA)
		_ = chB.Send(ctx, idA, mB)
		okA := waitStable(func() int { return len(emA.snapshot()) }, len(sentB), 20*time.Second)
		okB := waitStable(func() int { return len(emB.snapshot()) }, len(sentA), 20*time.Second)
		has := func(got []iface.EventPubSubPayload, m []byte) bool {
			for _, g := range got {
				if bytes.Equal(g.Payload, m) {
					return true
				}
			}
			return false
		}
		if !has(emA.snapshot(), mB) || !has(emB.snapshot(), mA) {
			if round > 0 {
				return &fw.Verdict{Status: fw.Violated, Key: "payload-lost-after-reconnect/oneonone", NonTrivial: true,
					What: fmt.Sprintf("after the context of A's first Connect ended (its store was closed) and A connected again, payloads sent afterwards never arrive (A got %d of %d, B got %d of %d)", len(emA.snapshot()), len(sentB), len(emB.snapshot()), len(sentA))}
			}
			return &fw.Verdict{Status: fw.Inconclusive, What: fmt.Sprintf("closing marker did not arrive (stable=%v/%v)", okA, okB)}
		}
		if vio := checkDelivery("A", emA.snapshot(), sentB, idB, idA); vio != nil {
			return &fw.Verdict{Status: fw.Violated, Key: vio.Key + "/oneonone", What: vio.What + fmt.Sprintf(" (concurrent Connect calls: %v, round %d)", concurrentConnect, round), NonTrivial: true}
		}
		if vio := checkDelivery("B", emB.snapshot(), sentA, idA, idB); vio != nil {
			return &fw.Verdict{Status: fw.Violated, Key: vio.Key + "/oneonone", What: vio.What + fmt.Sprintf(" (concurrent Connect calls: %v, round %d)", concurrentConnect, round), NonTrivial: true}
		}
		return nil
	}
	if bad := exchange(0); bad != nil {
		return *bad
	}
	reconnects := 0
	if c.Int("i", 0)%3 != 2 {
		// the context given to Connect belongs to the store that asked for the channel, the channels belong
		// to the instance: the store is closed, opened again and connects again
		for r := 1; r <= 2; r++ {
			cancelA()
			time.Sleep(30 * time.Millisecond)
			ctxA, cancelA = context.WithCancel(ctx)
			if err := chA.Connect(ctxA, idB); err != nil {
				return fw.Verdict{Status: fw.Inconclusive, What: "reconnect: " + err.Error()}
			}
			reconnects++
			if bad := exchange(r); bad != nil {
				return *bad
			}
		}
	}
	v.Count("oneonone_reconnects_after_store_context_ended", int64(reconnects))
	v.Count("oneonone_payloads_checked", int64(len(sentA)+len(sentB)))
	v.Status = fw.Held
	v.NonTrivial = len(sentA)+len(sentB) >= 5
	v.Sig = fw.HashSig("oneonone", c.Seed)
	v.Sample = map[string]interface{}{"adapter": "oneonone", "sent_by_A": len(sentA), "sent_by_B": len(sentB), "concurrent_connects": concurrentConnect, "channel": ta}
	return v
}

// chunkHost is a host whose outgoing streams hand their bytes to the transport in pieces, as a real
// stream transport (TCP, yamux frames) does: a stream has no message boundaries, so a receiver that
// assumes one Write arrives as one Read is wrong. The in-memory network delivers every Write whole.
type chunkHost struct {
	host.Host
	mu     sync.Mutex
	rng    *mrand.Rand
	chunks int64
}

func (h *chunkHost) NewStream(ctx context.Context, p peer.ID, pids ...protocol.ID) (network.Stream, error) {
	s, err := h.Host.NewStream(ctx, p, pids...)
	if err != nil {
		return nil, err
	}
	return &chunkStream{Stream: s, h: h}, nil
}

type chunkStream struct {
	network.Stream
	h *chunkHost
}

func (s *chunkStream) Write(b []byte) (int, error) {
	n := 0
	for len(b) > 0 {
		s.h.mu.Lock()
		k := 1 + s.h.rng.Intn(64<<10)
		if s.h.rng.Intn(4) == 0 {
			k = 1 + s.h.rng.Intn(16)
		}
		s.h.mu.Unlock()
		if k > len(b) {
			k = len(b)
		}
		m, err := s.Stream.Write(b[:k])
		n += m
		if err != nil {
			return n, err
		}
		atomic.AddInt64(&s.h.chunks, 1)
		b = b[k:]
	}
	return n, nil
}

func c20Direct(c fw.Case) fw.Verdict {
	rng := mrand.New(mrand.NewSource(c.Seed))
	v := fw.Verdict{}
	mn := mocknet.New()
	defer mn.Close()
	var hA, hB host.Host
	hA, err := mn.GenPeer()
	if err != nil {
		return fw.Verdict{Status: fw.Inconclusive, What: err.Error()}
	}
	hB, err = mn.GenPeer()
	if err != nil {
		return fw.Verdict{Status: fw.Inconclusive, What: err.Error()}
	}
	chunked := c.Int("i", 0)%2 == 1
	var cA, cB *chunkHost
	if chunked {
		cA = &chunkHost{Host: hA, rng: mrand.New(mrand.NewSource(c.Seed + 1))}
		cB = &chunkHost{Host: hB, rng: mrand.New(mrand.NewSource(c.Seed + 2))}
		hA, hB = cA, cB
	}
	_ = mn.LinkAll()
	_ = mn.ConnectAllButSelf()
	emA, emB := &recEmitter{}, &recEmitter{}
	ctx, cancel := context.WithCancel(bg)
	defer cancel()
	chA, _ := directchannel.InitDirectChannelFactory(zap.NewNop(), hA)(ctx, emA, nil)
	chB, _ := directchannel.InitDirectChannelFactory(zap.NewNop(), hB)(ctx, emB, nil)
	defer chA.Close()
	defer chB.Close()
	lim := directchannel.DelimitedReadMaxSize
	sizes := []int{0, 1, 1024, lim - 1, lim, lim + 1, 6 << 20}
	big := c.Int("i", 0)%3 == 0
	var plan []int
	if big {
		plan = append(plan, sizes...)
	}
	for i := 0; i < 8+rng.Intn(12); i++ {
		plan = append(plan, rng.Intn(5000))
	}
	rng.Shuffle(len(plan), func(i, j int) { plan[i], plan[j] = plan[j], plan[i] })
	var sentA, sentB [][]byte // accepted sizes only
	var wg sync.WaitGroup
	var mu sync.Mutex
	oversize := 0
	for i, size := range plan {
		fromA := rng.Intn(2) == 0
		tag := "B"
		if fromA {
			tag = "A"
		}
		p := uniquePayload(rng, tag, i, size)
		if len(p) > lim {
			oversize++
		} else if fromA {
			sentA = append(sentA, p)
		} else {
			sentB = append(sentB, p)
		}
		wg.Add(1)
		go func(fromA bool, p []byte) { // concurrent senders
			defer wg.Done()
			var err error
			if fromA {
				err = chA.Send(ctx, hB.ID(), p)
			} else {
				err = chB.Send(ctx, hA.ID(), p)
			}
			mu.Lock()
			_ = err
			mu.Unlock()
		}(fromA, p)
		if rng.Intn(3) == 0 {
			wg.Wait()
		}
	}
	wg.Wait()
	mA, mB := []byte("marker-from-A"), []byte("marker-from-B")
	sentA, sentB = append(sentA, mA), append(sentB, mB)
	_ = chA.Send(ctx, hB.ID(), mA)
	_ = chB.Send(ctx, hA.ID(), mB)
	waitStable(func() int { return len(emA.snapshot()) }, len(sentB), 30*time.Second)
	waitStable(func() int { return len(emB.snapshot()) }, len(sentA), 30*time.Second)
	has := func(got []iface.EventPubSubPayload, m []byte) bool {
		for _, g := range got {
			if bytes.Equal(g.Payload, m) {
				return true
			}
		}
		return false
	}
	if !has(emA.snapshot(), mB) || !has(emB.snapshot(), mA) {
		if oversize > 0 {
			return fw.Verdict{Status: fw.Violated, Key: "traffic-disturbed-after-oversize-frame/direct", NonTrivial: true, What: "after an oversize frame was refused, a later normal payload never arrived"}
		}
		return fw.Verdict{Status: fw.Inconclusive, What: "closing marker did not arrive"}
	}
	if vio := checkDelivery("A", emA.snapshot(), sentB, hB.ID(), hA.ID()); vio != nil {
		return fw.Verdict{Status: fw.Violated, Key: vio.Key + "/direct", What: vio.What, NonTrivial: true}
	}
	if vio := checkDelivery("B", emB.snapshot(), sentA, hA.ID(), hB.ID()); vio != nil {
		return fw.Verdict{Status: fw.Violated, Key: vio.Key + "/direct", What: vio.What, NonTrivial: true}
	}
	v.Count("direct_payloads_checked", int64(len(sentA)+len(sentB)))
	v.Count("oversize_frames_refused", int64(oversize))
	if chunked {
		v.Count("direct_transport_chunks_written", atomic.LoadInt64(&cA.chunks)+atomic.LoadInt64(&cB.chunks))
	}
	v.Status = fw.Held
	v.NonTrivial = len(sentA)+len(sentB) >= 5
	v.Sig = fw.HashSig("direct", c.Seed)
	sort.Ints(plan)
	v.Sample = map[string]interface{}{"adapter": "directchannel", "payload_sizes": plan, "oversize": oversize, "chunked_transport": chunked}
	return v
}

func c20Raw(c fw.Case) fw.Verdict {
	rng := mrand.New(mrand.NewSource(c.Seed))
	v := fw.Verdict{}
	mn := mocknet.New()
	defer mn.Close()
	ctx, cancel := context.WithCancel(bg)
	defer cancel()
	hA, _ := mn.GenPeer()
	hB, _ := mn.GenPeer()
	_ = mn.LinkAll()
	psA, err := p2ppubsub.NewGossipSub(ctx, hA)
	if err != nil {
		return fw.Verdict{Status: fw.Inconclusive, What: err.Error()}
	}
	psB, err := p2ppubsub.NewGossipSub(ctx, hB)
	if err != nil {
		return fw.Verdict{Status: fw.Inconclusive, What: err.Error()}
	}
	_ = mn.ConnectAllButSelf()
	adA := pubsubraw.NewPubSub(psA, hA.ID(), zap.NewNop(), nil)
	adB := pubsubraw.NewPubSub(psB, hB.ID(), zap.NewNop(), nil)
	tA, err := adA.TopicSubscribe(ctx, "topic")
	if err != nil {
		return fw.Verdict{Status: fw.Inconclusive, What: err.Error()}
	}
	tB, err := adB.TopicSubscribe(ctx, "topic")
	if err != nil {
		return fw.Verdict{Status: fw.Inconclusive, What: err.Error()}
	}
	pA, _ := tA.WatchPeers(ctx)
	mchA, _ := tA.WatchMessages(ctx)
	ctxB1, cancelB1 := context.WithCancel(ctx)
	defer cancelB1()
	mchB, _ := tB.WatchMessages(ctxB1)
	// eventual: A must see B join exactly once
	joins := 0
	deadline := time.After(30 * time.Second)
waitJoin:
	for {
		select {
		case ev := <-pA:
			if j, ok := ev.(*iface.EventPubSubJoin); ok && j.Peer == hB.ID() {
				joins++
				break waitJoin
			}
		case <-deadline:
			return fw.Verdict{Status: fw.Inconclusive, What: "gossipsub peers did not meet within the watchdog"}
		}
	}
	time.Sleep(1200 * time.Millisecond) // gossipsub mesh heartbeat
	var sent [][]byte
	for i := 0; i < 10+rng.Intn(20); i++ {
		p := uniquePayload(rng, "A", i, rng.Intn(2000))
		sent = append(sent, p)
		if err := tA.Publish(ctx, p); err != nil {
			return fw.Verdict{Status: fw.Inconclusive, What: "publish: " + err.Error()}
		}
	}
	marker := []byte("marker-from-A")
	sent = append(sent, marker)
	_ = tA.Publish(ctx, marker)
	var got [][]byte
	dl := time.After(30 * time.Second)
recv:
	for {
		select {
		case m := <-mchB:
			got = append(got, m.Content)
			if bytes.Equal(m.Content, marker) {
				time.Sleep(50 * time.Millisecond)
				for len(mchB) > 0 {
					got = append(got, (<-mchB).Content)
				}
				break recv
			}
		case <-dl:
			return fw.Verdict{Status: fw.Inconclusive, What: "marker did not arrive over gossipsub"}
		}
	}
	select {
	case m := <-mchA:
		return fw.Verdict{Status: fw.Violated, Key: "own-message-delivered/raw", NonTrivial: true, What: fmt.Sprintf("the publisher received its own %d-byte message", len(m.Content))}
	default:
	}
	count := map[string]int{}
	for _, g := range got {
		count[string(g)]++
	}
	for _, s := range sent {
		if count[string(s)] != 1 {
			return fw.Verdict{Status: fw.Violated, Key: "pubsub-message-count/raw", NonTrivial: true, What: fmt.Sprintf("a %d-byte message was delivered %d times", len(s), count[string(s)])}
		}
	}
	if len(got) != len(sent) {
		return fw.Verdict{Status: fw.Violated, Key: "pubsub-message-count/raw", NonTrivial: true, What: fmt.Sprintf("%d messages published, %d delivered", len(sent), len(got))}
	}
	for len(pA) > 0 {
		if j, ok := (<-pA).(*iface.EventPubSubJoin); ok && j.Peer == hB.ID() {
			joins++
		}
	}
	if joins != 1 {
		return fw.Verdict{Status: fw.Violated, Key: "membership-event-duplicated/raw", NonTrivial: true, What: fmt.Sprintf("the remote peer's join was reported %d times", joins)}
	}
	// the remote peer leaves the topic and joins it again: one leave, then one more join
	cancelB1()
	leaves := 0
	ldl := time.After(30 * time.Second)
waitLeave:
	for {
		select {
		case ev := <-pA:
			if l, ok := ev.(*iface.EventPubSubLeave); ok && l.Peer == hB.ID() {
				leaves++
				break waitLeave
			}
		case <-ldl:
			return fw.Verdict{Status: fw.Inconclusive, What: "the remote peer's leave was not seen within the watchdog"}
		}
	}
	mchB2, _ := tB.WatchMessages(ctx)
	marker2 := []byte("marker2-from-A")
	rdl := time.After(30 * time.Second)
	tick := time.NewTicker(300 * time.Millisecond)
	defer tick.Stop()
	_ = tA.Publish(ctx, marker2)
rejoined:
	for {
		select {
		case m := <-mchB2:
			if bytes.Equal(m.Content, marker2) {
				break rejoined // A forwards to B again: A's pubsub knows that B is on the topic
			}
		case <-tick.C:
			_ = tA.Publish(ctx, marker2)
		case <-rdl:
			return fw.Verdict{Status: fw.Inconclusive, What: "the remote peer did not receive anything after subscribing again"}
		}
	}
	time.Sleep(300 * time.Millisecond)
	joins2 := 0
	for len(pA) > 0 {
		switch ev := (<-pA).(type) {
		case *iface.EventPubSubJoin:
			if ev.Peer == hB.ID() {
				joins2++
			}
		case *iface.EventPubSubLeave:
			if ev.Peer == hB.ID() {
				leaves++
			}
		}
	}
	if joins2 != 1 || leaves != 1 {
		return fw.Verdict{Status: fw.Violated, Key: "membership-event-wrong/raw", NonTrivial: true, What: fmt.Sprintf("the remote peer left the topic and joined it again (it receives messages again): %d leave and %d further join event(s) were reported, expected 1 and 1", leaves, joins2)}
	}
	v.Count("raw_rejoin_checks", 1)
	v.Count("raw_messages_checked", int64(len(sent)))
	v.Status = fw.Held
	v.NonTrivial = true
	v.Sig = fw.HashSig("raw", c.Seed)
	v.Sample = map[string]interface{}{"adapter": "pubsubraw", "messages": len(sent)}
	return v
}
