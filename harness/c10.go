package main

import (
	"context"
	"fmt"
	"math/rand"
	"sort"
	"strings"
	"sync"
	"time"

	"berty.tech/go-ipfs-log/entry"
	cid "github.com/ipfs/go-cid"
	cbornode "github.com/ipfs/go-ipld-cbor"
	mh "github.com/multiformats/go-multihash"

	"verifharness/fw"
	"verifharness/sim"
)

func init() {
	fw.Register(&fw.Property{
		ID:    "C10",
		Level: "fault_enumeration",
		Rule: "ENUMERATED for announcement lists of length <= 4: number of valid heads {1,2} x bad kind {non-writer author; forged author in four forms: victim identity block and key (signature fails at join), victim id with the attacker's key and signatures, victim identity block with the attacker's key, victim id and key with the attacker's identity signatures; a forged head whose parent, or whose parent's parent, is a block nobody holds (its fetch waits for ever); a forged head naming 40 blocks that are not entries; wrong database; wrong claimed hash in two forms: the address of another valid head, an unrelated address} x position of the bad head in the list x placement {same message, message before, message after the valid one} x receiver {empty, already holding a prefix} x fetch-completion order (remote block fetches of the receiver are held and released in a PRNG permutation; the observed completion order is part of the signature); followed by an honest re-announcement of the valid heads only; in half of the forged-author cells the impersonated writer is one that has not written (nor been verified by anyone) before, and its first genuine entries are announced after the forgery. " +
			"distinct = cell + observed fetch-completion order; non-trivial = the bad head was delivered, >= 2 remote fetches went through the shuffling gate, and the re-announcement was delivered",
		Assumptions: []string{"whether a bad entry got in is C03/C04's statement and is not judged here", "structurally undecodable blocks are outside this property"},
		Cases:       c10Cases,
		Run:         c10Run,
		MinDistinct: map[string]int{"quick": 40, "thorough": 300},
		Batch:       12,
		Explain:     "oracle: after (bad ∪ valid) announcements, an honest re-announcement of the valid heads and rest, the receiver holds the closure (over next) of every valid head.",
	})
}

var c10Bad = []string{"non-writer", "forged-sig-fails", "forged-identity", "forged-own-key", "forged-id-key-bad-sigs", "forged-dangling-next", "forged-dangling-grandparent", "forged-junk-nexts", "wrong-database", "wrong-hash", "wrong-hash-unrelated"}
var c10Place = []string{"same", "before", "after"}

func c10Cases(tier string, seed int64) []fw.Case {
	var out []fw.Case
	rng := rand.New(rand.NewSource(seed*69621 + 10))
	reps := 1
	if tier == "thorough" {
		reps = 8
	}
	idx := 0
	for rep := 0; rep < reps; rep++ {
		for _, nv := range []int{1, 2} {
			for _, bad := range c10Bad {
				for _, place := range c10Place {
					for pos := 0; pos <= nv; pos++ {
						if place != "same" && pos > 0 {
							continue
						}
						for _, prefix := range []bool{false, true} {
							out = append(out, fw.Case{Idx: idx, Seed: rng.Int63(), P: map[string]interface{}{
								"nv": nv, "bad": bad, "place": place, "pos": pos, "prefix": prefix, "type": storeTypes[idx%3], "nbad": 1 + (idx/7)%2, "fresh": strings.HasPrefix(bad, "forged") && idx%2 == 0,
							}})
							idx++
						}
					}
				}
			}
		}
	}
	return out
}

// fetchShuffler holds remote block fetches of one peer and releases them in
// a PRNG order.
type fetchShuffler struct {
	mu      sync.Mutex
	rng     *rand.Rand
	target  *sim.Peer
	waiting []chan struct{}
	hashes  []string
	Order   []string
	Reorder int
	stop    chan struct{}
	seq     int
}

func (f *fetchShuffler) gate(ctx context.Context, to, from *sim.Peer, c cid.Cid) error {
	if to != f.target {
		return nil
	}
	ch := make(chan struct{})
	f.mu.Lock()
	f.waiting = append(f.waiting, ch)
	f.hashes = append(f.hashes, c.String())
	f.mu.Unlock()
	select {
	case <-ch:
		return nil
	case <-ctx.Done():
		return ctx.Err()
	case <-f.stop:
		return nil
	}
}

func (f *fetchShuffler) run() {
	t := time.NewTicker(1500 * time.Microsecond)
	defer t.Stop()
	for {
		select {
		case <-f.stop:
			return
		case <-t.C:
		}
		f.mu.Lock()
		if n := len(f.waiting); n > 0 {
			i := f.rng.Intn(n)
			if i != 0 {
				f.Reorder++
			}
			close(f.waiting[i])
			f.Order = append(f.Order, short(f.hashes[i]))
			f.waiting = append(f.waiting[:i], f.waiting[i+1:]...)
			f.hashes = append(f.hashes[:i], f.hashes[i+1:]...)
		}
		f.mu.Unlock()
	}
}

func c10Run(c fw.Case) fw.Verdict {
	e := NewEnv()
	defer e.Close()
	v := fw.Verdict{}
	rng := rand.New(rand.NewSource(c.Seed))
	nv, bad, place, pos, typ := c.Int("nv", 1), c.Str("bad", "non-writer"), c.Str("place", "same"), c.Int("pos", 0), c.Str("type", tKV)
	mk := func() *sim.Peer {
		p, err := e.W.AddPeer(sim.PeerOpts{})
		if err != nil {
			panic(err)
		}
		return p
	}
	C, W2, R := mk(), mk(), mk()
	V3 := mk() // an authorised writer that has not written anything (and whose identity nobody has verified) yet
	fresh := c.Bool("fresh")
	A, err := NewAdv(e.W, "mallory")
	if err != nil {
		return fw.Verdict{Status: fw.Inconclusive, What: err.Error()}
	}
	db, err := e.CreateDB("c10", typ, C, []*sim.Peer{W2, R, V3}, idsOf(C, W2, V3))
	if err != nil {
		return fw.Verdict{Status: fw.Inconclusive, What: "create: " + err.Error()}
	}
	db2, err := e.CreateDB("c10-other", typ, C, nil, idsOf(C, W2))
	if err != nil {
		return fw.Verdict{Status: fw.Inconclusive, What: "create2: " + err.Error()}
	}
	sC, sW, sR := db.Stores[C.Idx], db.Stores[W2.Idx], db.Stores[R.Idx]
	e.W.Flush()
	// optional prefix known to everybody
	if c.Bool("prefix") {
		for i := 0; i < 2+rng.Intn(3); i++ {
			if _, err := ApplyOp(bg, sC, honestOp(typ, i)); err != nil {
				return fw.Verdict{Status: fw.Inconclusive, What: err.Error()}
			}
		}
		if !e.W.Flush() {
			return fw.Verdict{Status: fw.Inconclusive, What: "prefix did not settle"}
		}
	}
	// valid suffix, unknown to R: C (and W2 for a second head) write while their announcements are dropped
	e.W.Cut(C, W2)
	writers := []*sim.Peer{C}
	if nv == 2 {
		writers = append(writers, W2)
	}
	for wi, p := range writers {
		for i := 0; i < 2+rng.Intn(3); i++ {
			if _, err := ApplyOp(bg, db.Stores[p.Idx], honestOp(typ, 10+10*wi+i)); err != nil {
				return fw.Verdict{Status: fw.Inconclusive, What: err.Error()}
			}
		}
	}
	e.W.Settle()
	e.W.DropAll()
	universe := map[string]*EntryInfo{}
	var valid []*entry.Entry
	for _, p := range writers {
		st := db.Stores[p.Idx]
		for _, en := range st.OpLog().Values().Slice() {
			universe[en.GetHash().String()] = infoOf(en)
		}
		for _, h := range headsOf(st) {
			valid = append(valid, h.Copy().(*entry.Entry))
		}
	}
	_ = sW
	maxT := 0
	var vh []cid.Cid
	var vhs []string
	for _, h := range valid {
		vh = append(vh, h.Hash)
		vhs = append(vhs, h.Hash.String())
		if h.Clock.Time > maxT {
			maxT = h.Clock.Time
		}
	}
	want := Closure(universe, vhs)

	// bad heads
	victim := C.DB.Identity()
	if fresh {
		victim = V3.DB.Identity()
	}
	mkBad := func(i int) (*entry.Entry, error) {
		switch bad {
		case "non-writer":
			return A.Forge(fNonWriter, db.Addr, opPayload(typ, 50+i, "x"), vh, nil, maxT+1+i, nil)
		case "forged-sig-fails":
			return A.Forge(fBlockVictimKey, db.Addr, opPayload(typ, 50+i, "x"), vh, nil, maxT+1+i, victim)
		case "forged-identity":
			// the victim's id with the attacker's key and signatures: refused by the access controller's author check
			return A.Forge(fCopiedID, db.Addr, opPayload(typ, 50+i, "x"), vh, nil, maxT+1+i, victim)
		case "forged-id-key-bad-sigs":
			return A.Forge(fIDKeyBadSigs, db.Addr, opPayload(typ, 50+i, "x"), vh, nil, maxT+1+i, victim)
		case "forged-dangling-next":
			// passes the receiver's pre-check (copied identity block and key, all public) but its `next`
			// names a block nobody holds: its fetch never completes
			dangling, err := cid.Decode("bafyreiaqcgb4rd2doanu7r5e2nhmvu2jkm3wqrjhnt7uzig6pjhbx6lzhu")
			if err != nil {
				return nil, err
			}
			return A.Forge(fBlockVictimKey, db.Addr, opPayload(typ, 50+i, "x"), []cid.Cid{dangling}, nil, maxT+1+i, victim)
		case "forged-dangling-grandparent":
			// as the previous kind, one level further down: the head's parent is a second forged entry that
			// R can fetch, and THAT entry's `next` names the block nobody holds. The head's own fetch
			// completes, so the refused head sits in the replicator's buffer with an ancestry that never arrives
			dangling, err := cid.Decode("bafyreiaqcgb4rd2doanu7r5e2nhmvu2jkm3wqrjhnt7uzig6pjhbx6lzhu")
			if err != nil {
				return nil, err
			}
			parent, err := A.Forge(fBlockVictimKey, db.Addr, opPayload(typ, 60+i, "x"), []cid.Cid{dangling}, nil, maxT+1+i, victim)
			if err != nil {
				return nil, err
			}
			return A.Forge(fBlockVictimKey, db.Addr, opPayload(typ, 50+i, "x"), []cid.Cid{parent.Hash}, nil, maxT+2+i, victim)
		case "forged-junk-nexts":
			// passes the pre-check like the previous kind; its 40 `next` name blocks that exist but are
			// not log entries: 40 fetches that fail, more than the replicator has fetch slots
			var junk []cid.Cid
			for j := 0; j < 40; j++ {
				nd, err := cbornode.WrapObject(map[string]interface{}{"junk": fmt.Sprintf("%d-%d-%d", c.Seed, i, j)}, mh.SHA2_256, -1)
				if err != nil {
					return nil, err
				}
				if err := A.P.API.Dag().Add(bg, nd); err != nil {
					return nil, err
				}
				junk = append(junk, nd.Cid())
			}
			return A.Forge(fBlockVictimKey, db.Addr, opPayload(typ, 50+i, "x"), junk, nil, maxT+1+i, victim)
		case "forged-own-key":
			return A.Forge(fBlockOwnKey, db.Addr, opPayload(typ, 50+i, "x"), vh, nil, maxT+1+i, victim)
		case "wrong-database":
			op, err := ApplyOp(bg, db2.Stores[C.Idx], honestOp(typ, 70+i))
			if err != nil {
				return nil, err
			}
			return op.GetEntry().Copy().(*entry.Entry), nil
		default: // wrong-hash
			he, err := HonestEntry(C, db.Addr, opPayload(typ, 50+i, "x"), vh, nil, maxT+1+i)
			if err != nil {
				return nil, err
			}
			if bad == "wrong-hash-unrelated" {
				other, err := A.Rehash(&entry.Entry{LogID: "x", Payload: []byte(fmt.Sprintf("x%d", i)), V: 2, Clock: entry.NewLamportClock([]byte{1}, 1)})
				if err != nil {
					return nil, err
				}
				he.Hash = other // claims an address that is not the hash of its content
			} else {
				he.Hash = valid[0].Hash // claims the address of another (valid) entry
			}
			if i > 0 {
				he.Payload = append(he.Payload, ' ')
			}
			return he, nil
		}
	}
	var bads []*entry.Entry
	for i := 0; i < c.Int("nbad", 1); i++ {
		b, err := mkBad(i)
		if err != nil {
			return fw.Verdict{Status: fw.Inconclusive, What: "bad head: " + err.Error()}
		}
		bads = append(bads, b)
	}
	e.W.Settle()
	e.W.DropAll()

	// fetch shuffling on R
	fs := &fetchShuffler{rng: rand.New(rand.NewSource(c.Seed + 1)), target: R, stop: make(chan struct{})}
	e.W.SetGate(fs.gate)
	go fs.run()
	defer close(fs.stop)

	send := func(list []*entry.Entry) bool { return e.W.InjectPub(C, R, db.Addr, HeadsMsg(db.Addr, list...)) }
	deliveredBad := false
	switch place {
	case "same":
		var list []*entry.Entry
		list = append(list, valid[:minInt(pos, len(valid))]...)
		list = append(list, bads...)
		list = append(list, valid[minInt(pos, len(valid)):]...)
		deliveredBad = send(list)
	case "before":
		deliveredBad = send(bads)
		if rng.Intn(2) == 0 {
			e.W.WaitIdle(sim.IdleOpts{BlockedOK: strings.HasPrefix(bad, "forged-dangling-"), IgnoreReplicators: strings.HasPrefix(bad, "forged-dangling-")})
		}
		send(valid)
	case "after":
		send(valid)
		if rng.Intn(2) == 0 {
			e.W.Settle()
		}
		deliveredBad = send(bads)
	}
	// a head naming a block nobody holds leaves one fetch waiting for ever: that is rest, not work in progress
	dangling := strings.HasPrefix(bad, "forged-dangling-")
	idle := sim.IdleOpts{BlockedOK: dangling, IgnoreReplicators: dangling}
	if !e.W.WaitIdle(idle) {
		if e.W.Wedged(confirmWindow()) {
			st, _ := replState(sR)
			return fw.Verdict{Status: fw.Violated, Key: fmt.Sprintf("bad=%s/outcome=wedged", bad), NonTrivial: true, Sig: fw.HashSig(nv, bad, place, pos, typ, fresh),
				What: fmt.Sprintf("after a %s head the replica never comes to rest although nothing runs, no fetch is parked and nothing is in flight: pending %v, replicator %s", bad, e.H.Detail(), st)}
		}
		return fw.Verdict{Status: fw.Inconclusive, What: "rest not reached after announcements: " + fmt.Sprint(e.H.Detail())}
	}
	// honest re-announcement of the valid heads only
	re := send(valid)
	if fresh {
		// the impersonated writer now writes for the first time: its genuine entries, announced honestly
		// AFTER the forged head, must become visible too
		e.W.WaitIdle(idle)
		sV := db.Stores[V3.Idx]
		_ = sV.Sync(bg, cloneHeads(append(headsOf(sC), headsOf(sW)...)))
		e.W.WaitIdle(idle)
		e.W.DropAll()
		for i := 0; i < 2; i++ {
			if _, err := ApplyOp(bg, sV, honestOp(typ, 900+i)); err != nil {
				return fw.Verdict{Status: fw.Violated, Key: fmt.Sprintf("bad=%s/outcome=genuine-writer-refused-after-forgery", bad), NonTrivial: true, Sig: fw.HashSig(nv, bad, place, pos, typ, fresh),
					What: fmt.Sprintf("after a %s head naming an authorised writer was received, that writer's own genuine write is refused: %v", bad, err)}
			}
		}
		e.W.WaitIdle(idle)
		e.W.DropAll()
		var vheads []*entry.Entry
		var vhs2 []string
		for _, en := range sV.OpLog().Values().Slice() {
			universe[en.GetHash().String()] = infoOf(en)
		}
		for _, h := range headsOf(sV) {
			vheads = append(vheads, h.Copy().(*entry.Entry))
			vhs2 = append(vhs2, h.GetHash().String())
		}
		want = Closure(universe, append(vhs, vhs2...))
		e.W.InjectPub(V3, R, db.Addr, HeadsMsg(db.Addr, vheads...))
	}
	held := func() (bool, string) {
		for _, h := range want {
			if !logHas(sR, mustCid(h)) {
				return false, h
			}
		}
		return true, ""
	}
	deadline := time.Now().Add(20 * time.Second)
	ok, missing := held()
	for !ok && time.Now().Before(deadline) {
		if e.W.WaitIdle(sim.IdleOpts{Watchdog: 5 * time.Second, BlockedOK: dangling, IgnoreReplicators: dangling}) {
			ok, missing = held()
			break
		}
		ok, missing = held()
	}
	fs.mu.Lock()
	v.Count("fetches_released_by_gate", int64(len(fs.Order)))
	v.Count("fetches_reordered", int64(fs.Reorder))
	fs.mu.Unlock()
	v.Count("valid_entries_expected", int64(len(want)))
	cell := fw.HashSig(nv, bad, place, pos, c.Bool("prefix"), typ, c.Int("nbad", 1), fresh)
	fs.mu.Lock()
	ord := strings.Join(fs.Order, ">")
	nrel := len(fs.Order)
	fs.mu.Unlock()
	v.Sig = cell + fw.HashSig(ord)
	v.NonTrivial = deliveredBad && re && nrel >= 2
	if !ok {
		// negative verdict: confirm rest
		if !e.W.WaitIdle(sim.IdleOpts{Stable: confirmWindow(), Watchdog: 60 * time.Second, BlockedOK: dangling, IgnoreReplicators: dangling}) {
			if e.W.Wedged(confirmWindow()) {
				st, _ := replState(sR)
				return fw.Verdict{Status: fw.Violated, Key: fmt.Sprintf("bad=%s/outcome=wedged", bad), NonTrivial: true, Sig: v.Sig,
					What: fmt.Sprintf("after a %s head and the re-announcement of the valid heads the replica never comes to rest although nothing runs, no fetch is parked and nothing is in flight: pending %v, replicator %s", bad, e.H.Detail(), st)}
			}
			return fw.Verdict{Status: fw.Inconclusive, What: "rest not reached before negative verdict", Sig: v.Sig}
		}
		if ok, missing = held(); !ok {
			have := []string{}
			for _, en := range sR.OpLog().Values().Slice() {
				have = append(have, short(en.GetHash().String()))
			}
			sort.Strings(have)
			v.Status = fw.Violated
			v.NonTrivial = true
			v.Key = fmt.Sprintf("bad=%s/outcome=valid-skipped-after-reannounce", bad)
			v.What = fmt.Sprintf("after a %s head (%s, position %d) and an honest re-announcement, valid entry %s (of %d expected) is still missing at rest; replica holds [%s]", bad, place, pos, short(missing), len(want), strings.Join(have, ","))
			return v
		}
	}
	v.Status = fw.Held
	v.Sample = map[string]interface{}{"valid_heads": nv, "bad": bad, "placement": place, "position": pos, "receiver_prefix": c.Bool("prefix"), "fetch_completion_order": ord, "expected_entries": len(want)}
	return v
}

func confirmWindow() time.Duration {
	if raceBuild() {
		return 6 * time.Second
	}
	return 2 * time.Second
}
