package main

// C05, "write before load": the process is restarted, the database reopened and WRITTEN TO before (or
// without) Load being called, once or twice in a row; after one more restart a complete load must still
// contain every write that was ever acknowledged (the property quantifies over every later instant of
// stopping, not over applications that load first).

import (
	"fmt"
	"math/rand"

	"verifharness/fw"
	"verifharness/sim"
)

func c05WblCases(tier string, seed int64, from int) []fw.Case {
	n := 9
	if tier == "thorough" {
		n = 45
	}
	rng := rand.New(rand.NewSource(seed*4441 + 505))
	var out []fw.Case
	for i := 0; i < n; i++ {
		out = append(out, fw.Case{Idx: from + i, Seed: rng.Int63(), Kind: "write-before-load", P: map[string]interface{}{
			"type": storeTypes[i%3], "first": 1 + rng.Intn(4), "lives": 1 + (i/3)%2, "load_after_write": (i/3)%3 == 2,
		}})
	}
	return out
}

func c05WblRun(c fw.Case) fw.Verdict {
	e := NewEnv()
	defer e.Close()
	v := fw.Verdict{}
	typ, first, lives, loadAfter := c.Str("type", tEvent), c.Int("first", 2), c.Int("lives", 1), c.Bool("load_after_write")
	rng := rand.New(rand.NewSource(c.Seed))
	v.Sig = fw.HashSig("write-before-load", typ, first, lives, loadAfter)
	P, err := e.W.AddPeer(sim.PeerOpts{OnDisk: true})
	if err != nil {
		return fw.Verdict{Status: fw.Inconclusive, What: err.Error()}
	}
	db, err := e.CreateDB("c05wbl", typ, P, nil, nil)
	if err != nil {
		return fw.Verdict{Status: fw.Inconclusive, What: "create: " + err.Error()}
	}
	var acked []string
	k := 0
	write := func(n int) error {
		for i := 0; i < n; i++ {
			op, err := ApplyOp(bg, db.Stores[P.Idx], uniqueKeyOp(typ, k))
			if err != nil {
				return err
			}
			k++
			acked = append(acked, op.GetEntry().GetHash().String())
		}
		return nil
	}
	restart := func() error {
		P.Stop()
		e.W.Settle()
		if err := P.Start(); err != nil {
			return err
		}
		return e.OpenOn(db, P)
	}
	if err := write(first); err != nil {
		return fw.Verdict{Status: fw.Inconclusive, What: "first writes: " + err.Error()}
	}
	for l := 0; l < lives; l++ {
		if err := restart(); err != nil {
			return fw.Verdict{Status: fw.Inconclusive, What: "restart: " + err.Error()}
		}
		// written to before Load
		if err := write(1 + rng.Intn(2)); err != nil {
			return fw.Verdict{Status: fw.Violated, Key: "write-before-load-refused", NonTrivial: true, Sig: v.Sig, What: "a write on a reopened, not yet loaded database failed: " + err.Error()}
		}
		v.Count("writes_before_load_phases", 1)
		if loadAfter {
			if err := db.Stores[P.Idx].Load(bg, -1); err != nil {
				return fw.Verdict{Status: fw.Violated, Key: "load-after-early-write-failed", NonTrivial: true, Sig: v.Sig, What: err.Error()}
			}
		}
	}
	if err := restart(); err != nil {
		return fw.Verdict{Status: fw.Inconclusive, What: "restart: " + err.Error()}
	}
	s := db.Stores[P.Idx]
	if err := s.Load(bg, -1); err != nil {
		return fw.Verdict{Status: fw.Violated, Key: "load-after-restart-failed", NonTrivial: true, Sig: v.Sig, What: err.Error()}
	}
	e.W.Settle()
	v.NonTrivial = true
	v.Count("acknowledged_writes", int64(len(acked)))
	missing := 0
	firstMissing := ""
	for _, h := range acked {
		if !logHas(s, mustCid(h)) {
			if missing == 0 {
				firstMissing = h
			}
			missing++
		}
	}
	if missing > 0 {
		return fw.Verdict{Status: fw.Violated, Key: "acknowledged-write-lost/written-before-load", NonTrivial: true, Sig: v.Sig,
			What: fmt.Sprintf("%d writes acknowledged over %d process lives (%d before the first restart; after each restart the database was written to before Load%s); after the last restart Load(-1) recovers %d entries, %d acknowledged writes are missing (first: %s)", len(acked), lives+2, first, map[bool]string{true: ", then loaded", false: ""}[loadAfter], s.OpLog().Len(), missing, short(firstMissing))}
	}
	sn := TakeSnap(typ, s, P.Idx)
	if closed, at := ClosedUnderNext(sn.Entries, sn.Order); !closed {
		return fw.Verdict{Status: fw.Violated, Key: "recovered-log-not-closed/written-before-load", NonTrivial: true, Sig: v.Sig, What: "recovered log is not closed under ancestry at " + short(at)}
	}
	// the peer kept its identity: it can still write
	if _, err := ApplyOp(bg, s, uniqueKeyOp(typ, 9000)); err != nil {
		return fw.Verdict{Status: fw.Violated, Key: "cannot-write-after-recovery", NonTrivial: true, Sig: v.Sig, What: err.Error()}
	}
	v.Status = fw.Held
	v.Sample = map[string]interface{}{"mode": "write-before-load", "type": typ, "lives": lives + 2, "acknowledged": len(acked), "recovered": len(sn.Order)}
	return v
}
