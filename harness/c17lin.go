package main

// C17 / C06 / C07 / C08, "at every moment" under concurrent callers of ONE store handle:
// every client call (write or read) is recorded at the API boundary with call and return
// times from one monotonic clock; the recorded history is then checked offline for
// linearizability against a small sequential model (porcupine v1.3.0):
//   - key-value and document stores: one last-writer-wins register per key (partitioned by key),
//   - event log: one append-only list, a read returning the whole listing.
// Every written value is unique, so a read identifies the write it observed.

import (
	"fmt"
	"math/rand"
	"sort"
	"strings"
	"sync"
	"time"

	"berty.tech/go-orbit-db/iface"
	"github.com/anishathalye/porcupine"

	"verifharness/fw"
	"verifharness/sim"
)

type linIn struct {
	Op  string // put del get add list
	Key string
	Val string
}

func linModel(typ string) porcupine.Model {
	m := porcupine.Model{
		Init: func() interface{} { return "" },
		Equal: func(a, b interface{}) bool {
			return a.(string) == b.(string)
		},
		DescribeOperation: func(in, out interface{}) string {
			i := in.(linIn)
			return fmt.Sprintf("%s(%s %s) -> %q", i.Op, i.Key, i.Val, out.(string))
		},
		DescribeState: func(st interface{}) string { return fmt.Sprintf("%q", st.(string)) },
	}
	if typ == tEvent {
		m.Step = func(st, in, out interface{}) (bool, interface{}) {
			i, s := in.(linIn), st.(string)
			switch i.Op {
			case "add":
				return true, s + i.Val + ","
			default: // list
				return out.(string) == s, s
			}
		}
		return m
	}
	m.Partition = func(h []porcupine.Operation) [][]porcupine.Operation {
		by := map[string][]porcupine.Operation{}
		var keys []string
		for _, o := range h {
			k := o.Input.(linIn).Key
			if _, ok := by[k]; !ok {
				keys = append(keys, k)
			}
			by[k] = append(by[k], o)
		}
		sort.Strings(keys)
		var out [][]porcupine.Operation
		for _, k := range keys {
			out = append(out, by[k])
		}
		return out
	}
	docs := typ == tDocs
	m.Step = func(st, in, out interface{}) (bool, interface{}) {
		i, s, o := in.(linIn), st.(string), out.(string)
		switch i.Op {
		case "put":
			return true, i.Val
		case "del":
			if o == "refused" {
				// only the document store refuses, and only a key that is absent at some moment of the call
				return docs && s == "", s
			}
			// (two overlapping deletes of a present document may both be acknowledged: the presence test
			// and the append are two steps of Delete; the property does not speak about that)
			return true, ""
		default: // get
			return o == s, s
		}
	}
	return m
}

func c17LinCases(tier string, seed int64, from int) []fw.Case {
	n := 30
	if tier == "thorough" {
		n = 300
	}
	rng := rand.New(rand.NewSource(seed*7349 + 1717))
	hs := []string{"none", "delays", "index-hold", "index-inversion"}
	var out []fw.Case
	for i := 0; i < n; i++ {
		out = append(out, fw.Case{Idx: from + i, Seed: rng.Int63(), P: map[string]interface{}{
			"mode": "lin", "type": storeTypes[i%3], "g": 3 + rng.Intn(4), "w": 6 + rng.Intn(9), "handler": hs[(i/3)%4], "preload": []int{0, 0, 60}[(i/12)%3],
		}})
	}
	return out
}

func c17LinRun(c fw.Case) fw.Verdict {
	e := NewEnv()
	defer e.Close()
	v := fw.Verdict{}
	typ, g, w, handler := c.Str("type", tKV), c.Int("g", 3), c.Int("w", 8), c.Str("handler", "none")
	P, err := e.W.AddPeer(sim.PeerOpts{})
	if err != nil {
		return fw.Verdict{Status: fw.Inconclusive, What: err.Error()}
	}
	db, err := e.CreateDB("c17lin", typ, P, nil, nil)
	if err != nil {
		return fw.Verdict{Status: fw.Inconclusive, What: "create: " + err.Error()}
	}
	s := db.Stores[P.Idx]
	if typ != tEvent { // the event log's model starts from the empty listing
		for i := 0; i < c.Int("preload", 0); i++ {
			op := honestOp(typ, 100000+i)
			op.Key = fmt.Sprintf("pre%d", i%7)
			if typ == tDocs {
				op.Docs[0].ID = op.Key
			}
			if _, err := ApplyOp(bg, s, op); err != nil {
				return fw.Verdict{Status: fw.Inconclusive, What: "preload: " + err.Error()}
			}
		}
	}
	ih := &indexHolder{}
	var mu sync.Mutex
	hrng := rand.New(rand.NewSource(c.Seed + 5))
	sleep := func(max int) {
		mu.Lock()
		d := time.Duration(hrng.Intn(max)) * time.Microsecond
		mu.Unlock()
		time.Sleep(d)
	}
	var invCh chan struct{}
	switch handler {
	case "index-hold":
		ih.install(e)
		ih.set(true)
	case "delays":
		e.H.SetPoint("write.after-append", func(string, []interface{}) { sleep(300) })
		e.H.SetPoint("write.after-persist", func(string, []interface{}) { sleep(300) })
		e.H.SetPoint("index.after-values", func(string, []interface{}) { sleep(300) })
	case "index-inversion":
		// the writer that persisted first refreshes the view only after a later writer has refreshed it
		e.H.SetPoint("write.after-persist", func(string, []interface{}) {
			mu.Lock()
			if invCh != nil {
				mu.Unlock()
				return
			}
			ch := make(chan struct{})
			invCh = ch
			mu.Unlock()
			select {
			case <-ch:
			case <-time.After(8 * time.Millisecond):
				mu.Lock()
				if invCh == ch {
					invCh = nil
				}
				mu.Unlock()
			}
		})
		e.H.SetPoint("write.after-index", func(string, []interface{}) {
			mu.Lock()
			if invCh != nil {
				close(invCh)
				invCh = nil
			}
			mu.Unlock()
		})
	}

	start := time.Now()
	now := func() int64 { return int64(time.Since(start)) }
	var hmu sync.Mutex
	var hist []porcupine.Operation
	var opErr string
	rec := func(o porcupine.Operation) {
		hmu.Lock()
		hist = append(hist, o)
		hmu.Unlock()
	}
	minus1 := -1
	var wg sync.WaitGroup
	for gi := 0; gi < g; gi++ {
		wg.Add(1)
		go func(gi int) {
			defer wg.Done()
			rng := rand.New(rand.NewSource(c.Seed + int64(gi)*977))
			for i := 0; i < w; i++ {
				in := linIn{Key: fmt.Sprintf("k%d", rng.Intn(2)), Val: fmt.Sprintf("g%d-%d", gi, i)}
				switch r := rng.Intn(20); {
				case typ == tEvent && r < 9:
					in.Op, in.Key = "add", ""
				case typ == tEvent:
					in.Op, in.Key, in.Val = "list", "", ""
				case r < 8:
					in.Op = "put"
				case r < 11:
					in.Op, in.Val = "del", ""
				default:
					in.Op, in.Val = "get", ""
				}
				out := ""
				t0 := now()
				switch st := s.(type) {
				case iface.EventLogStore:
					if in.Op == "add" {
						if _, err := st.Add(bg, []byte(in.Val)); err != nil {
							out = "ERR " + err.Error()
						}
					} else {
						ops, err := st.List(bg, &iface.StreamOptions{Amount: &minus1})
						if err != nil {
							out = "ERR " + err.Error()
						}
						var sb strings.Builder
						for _, op := range ops {
							sb.Write(op.GetValue())
							sb.WriteByte(',')
						}
						if err == nil {
							out = sb.String()
						}
					}
				case iface.KeyValueStore:
					switch in.Op {
					case "put":
						if _, err := st.Put(bg, in.Key, []byte(in.Val)); err != nil {
							out = "ERR " + err.Error()
						}
					case "del":
						if _, err := st.Delete(bg, in.Key); err != nil {
							out = "ERR " + err.Error()
						}
					default:
						b, err := st.Get(bg, in.Key)
						if err != nil {
							out = "ERR " + err.Error()
						} else {
							out = string(b)
						}
					}
				case iface.DocumentStore:
					switch in.Op {
					case "put":
						if _, err := st.Put(bg, map[string]interface{}{"_id": in.Key, "v": in.Val}); err != nil {
							out = "ERR " + err.Error()
						}
					case "del":
						if _, err := st.Delete(bg, in.Key); err != nil {
							out = "refused"
						}
					default:
						docs, err := st.Get(bg, in.Key, nil)
						switch {
						case err != nil:
							out = "ERR " + err.Error()
						case len(docs) > 1:
							out = fmt.Sprintf("ERR %d documents for one key", len(docs))
						case len(docs) == 1:
							if m, ok := docs[0].(map[string]interface{}); ok {
								out, _ = m["v"].(string)
							}
						}
					}
				}
				t1 := now()
				if strings.HasPrefix(out, "ERR ") {
					hmu.Lock()
					if opErr == "" {
						opErr = fmt.Sprintf("%s(%s) by goroutine %d: %s", in.Op, in.Key, gi, out[4:])
					}
					hmu.Unlock()
					return
				}
				rec(porcupine.Operation{ClientId: gi, Input: in, Call: t0, Output: out, Return: t1})
			}
		}(gi)
	}
	wg.Wait()
	ih.set(false)
	e.W.Settle()
	e.H.ClearPoints()
	if opErr != "" {
		return fw.Verdict{Status: fw.Violated, Key: "lin/call-failed", What: "a call on an open store with an authorised identity failed: " + opErr, NonTrivial: true, Sig: fw.HashSig("lin", typ, g, w, handler, c.Seed)}
	}
	// what was observed: overlapping calls, reads overlapping writes (per key), the order of calls
	sort.Slice(hist, func(i, j int) bool { return hist[i].Call < hist[j].Call })
	var shape strings.Builder
	overl, rw := 0, 0
	for i, o := range hist {
		in := o.Input.(linIn)
		fmt.Fprintf(&shape, "%d%s%s;", o.ClientId, in.Op[:1], in.Key)
		for j := i + 1; j < len(hist) && hist[j].Call < o.Return; j++ {
			overl++
			jn := hist[j].Input.(linIn)
			if jn.Key == in.Key && (jn.Op == "get" || jn.Op == "list") != (in.Op == "get" || in.Op == "list") {
				rw++
			}
		}
	}
	v.Count("lin_operations_recorded", int64(len(hist)))
	v.Count("lin_overlapping_call_pairs", int64(overl))
	v.Count("lin_read_overlapping_write_pairs", int64(rw))
	v.Count("index_rebuilds_held", int64(ih.Holds))
	v.Sig = fw.HashSig("lin", typ, g, w, handler, shape.String())
	v.NonTrivial = rw > 0
	if typ == tEvent {
		// unique values: a listing identifies the adds it contains, so the history is decided directly
		// (the generic search over an append-only list is exponential in the number of overlapping adds)
		if what := linEventLog(hist, s); what != "" {
			return fw.Verdict{Status: fw.Violated, Key: "history-not-linearizable/" + typ, NonTrivial: true, Sig: v.Sig, Counters: v.Counters,
				What: fmt.Sprintf("the calls recorded on one %s store handle (%d goroutines, handler %s) have no order that respects real time and explains every listing: %s", typ, g, handler, what)}
		}
		sn := TakeSnap(typ, s, P.Idx)
		if vio := checkSnapAgainstModel(typ, sn.Entries, sn, &v); vio != nil {
			return fw.Verdict{Status: fw.Violated, Key: vio.Key, What: vio.What, NonTrivial: true, Sig: v.Sig}
		}
		v.Status = fw.Held
		v.Sample = map[string]interface{}{"mode": "lin", "type": typ, "goroutines": g, "ops_each": w, "handler": handler, "operations": len(hist), "overlapping_pairs": overl, "read_write_overlaps": rw}
		return v
	}
	model := linModel(typ)
	res, info := porcupine.CheckOperationsVerbose(model, hist, 60*time.Second)
	switch res {
	case porcupine.Unknown:
		v.Status, v.What = fw.Inconclusive, "linearizability checker timed out"
		return v
	case porcupine.Illegal:
		// witness: the sub-history of the first partition that has no linearization
		var lines []string
		parts := [][]porcupine.Operation{hist}
		if model.Partition != nil {
			parts = model.Partition(hist)
		}
		for _, p := range parts {
			if r, _ := porcupine.CheckOperationsVerbose(porcupine.Model{Init: model.Init, Step: model.Step, Equal: model.Equal}, p, 30*time.Second); r == porcupine.Illegal {
				for _, o := range p {
					lines = append(lines, fmt.Sprintf("  [%9d,%9d] g%d %s", o.Call, o.Return, o.ClientId, model.DescribeOperation(o.Input, o.Output)))
				}
				break
			}
		}
		_ = info
		if len(lines) > 60 {
			lines = lines[:60]
		}
		return fw.Verdict{Status: fw.Violated, Key: "history-not-linearizable/" + typ, NonTrivial: true, Sig: v.Sig, Counters: v.Counters,
			What:  fmt.Sprintf("the calls recorded on one %s store handle (%d goroutines, handler %s) have no order that respects real time and explains every read: a read returned a value that was not the latest acknowledged one (or missed an acknowledged write)", typ, g, handler),
			Trace: lines}
	}
	// at rest the view equals the replay (shared oracle)
	sn := TakeSnap(typ, s, P.Idx)
	if vio := checkSnapAgainstModel(typ, sn.Entries, sn, &v); vio != nil {
		return fw.Verdict{Status: fw.Violated, Key: vio.Key, What: vio.What, NonTrivial: true, Sig: v.Sig}
	}
	v.Status = fw.Held
	v.Sample = map[string]interface{}{"mode": "lin", "type": typ, "goroutines": g, "ops_each": w, "handler": handler, "operations": len(hist), "overlapping_pairs": overl, "read_write_overlaps": rw}
	return v
}

// linEventLog decides a history of Add(unique value) / full listings on ONE event log handle without
// remote merges: the final listing is the append order; every listing must be a prefix of it; an add that
// returned before a listing was called is in that listing; an add that a listing contains was called
// before the listing returned; adds that do not overlap are listed in real-time order. Returns "" or
// the first contradiction.
func linEventLog(hist []porcupine.Operation, s iface.Store) string {
	minus1 := -1
	ops, err := s.(iface.EventLogStore).List(bg, &iface.StreamOptions{Amount: &minus1})
	if err != nil {
		return "final listing failed: " + err.Error()
	}
	pos := map[string]int{}
	var final []string
	for i, op := range ops {
		pos[string(op.GetValue())] = i
		final = append(final, string(op.GetValue()))
	}
	type add struct {
		v    string
		c, r int64
		p    int
	}
	var adds []add
	for _, o := range hist {
		in := o.Input.(linIn)
		if in.Op != "add" {
			continue
		}
		p, ok := pos[in.Val]
		if !ok {
			return fmt.Sprintf("acknowledged add(%s) is not in the final listing of %d entries", in.Val, len(final))
		}
		adds = append(adds, add{in.Val, o.Call, o.Return, p})
	}
	if len(final) != len(adds) {
		return fmt.Sprintf("final listing has %d entries for %d acknowledged adds", len(final), len(adds))
	}
	for _, a := range adds {
		for _, b := range adds {
			if a.r < b.c && a.p > b.p {
				return fmt.Sprintf("add(%s) returned before add(%s) was called but is listed after it", a.v, b.v)
			}
		}
	}
	for _, o := range hist {
		if o.Input.(linIn).Op != "list" {
			continue
		}
		out := o.Output.(string)
		var l []string
		if out != "" {
			l = strings.Split(strings.TrimSuffix(out, ","), ",")
		}
		if len(l) > len(final) {
			return fmt.Sprintf("a listing of %d entries is longer than the final listing (%d)", len(l), len(final))
		}
		for i := range l {
			if l[i] != final[i] {
				return fmt.Sprintf("a listing [%d entries, call %d] is not a prefix of the final listing: position %d holds %s, finally %s", len(l), o.Call, i, l[i], final[i])
			}
		}
		for _, a := range adds {
			if a.r < o.Call && a.p >= len(l) {
				return fmt.Sprintf("add(%s) returned at %d, a listing called at %d (by goroutine %d) shows %d entries and not that one", a.v, a.r, o.Call, o.ClientId, len(l))
			}
			if a.p < len(l) && a.c > o.Return {
				return fmt.Sprintf("a listing that returned at %d contains %s, whose add was called at %d", o.Return, a.v, a.c)
			}
		}
	}
	return ""
}
