package main

import (
	"context"
	"fmt"
	"math/rand"
	"sort"
	"strings"
	"time"

	"berty.tech/go-orbit-db/address"
	"berty.tech/go-orbit-db/iface"
	cid "github.com/ipfs/go-cid"

	"verifharness/fw"
	"verifharness/sim"
)

func init() {
	fw.Register(&fw.Property{
		ID:    "C14",
		Level: "exploration",
		Rule: "cases = batches of (name, type, write list) tuples on 3 peers with different identities. Names: ASCII, unicode (NFC/NFD pairs, RTL, emoji), spaces, nested a/b/c, empty, '.', '..', 'a/../b', 'a//b', trailing slash, leading slash, 200 characters, CID-looking, '/orbitdb/...'-looking (also with valid CIDs, with and without the leading slash, and the printed addresses of databases of the same batch used as NAMES), percent and control characters, plus PRNG compositions of these pieces; x 3 registered types x write lists {none (creator default), [a], [a,b], [b,a], [a,b,c], wildcard}. Per tuple: the address computed by every peer; per batch: a collision map over all tuples; on a sample: Create, Open on another peer, second Create with/without Overwrite (also with a non-default CreateDBOptions.Directory), LocalOnly open of an unknown database, DetermineAddress/Create from ONE parameters value reused for up to 8 databases with its write list changed in between, and Open on a fresh peer while the k-th block it needs (k=1..3: database manifest, controller manifest, write list) does not arrive before the deadline. " +
			"distinct = tuple (name, type, list); non-trivial = the name was accepted by Create/DetermineAddress on every peer (refused names must be refused identically on every peer and are counted separately)",
		Assumptions: []string{"the write list as given (order included) is part of the inputs", "blocks of the creating peer are fetchable by the opening peer"},
		Cases:       c14Cases,
		Run:         c14Run,
		MinDistinct: map[string]int{"quick": 300, "thorough": 3000},
		Batch:       3,
		CaseTimeout: 240 * time.Second,
		Explain:     "oracle: same inputs => same address on all peers (and the default list equals the explicit [creator id] computed by another peer); different inputs => different addresses; Parse(String()) has the same root, path and string; Open on another peer yields the created type and GetAuthorizedByRole('write') = the given list; a second Create is refused without Overwrite and accepted with it; LocalOnly open of an unknown database is refused.",
	})
}

var c14Names = []string{
	"db", "DB", "db1", "my database", " leading", "trailing ", "a/b/c", "a/b", "a", "b", "", ".", "..", "...", "a/../b", "a/./b", "a//b", "a/", "/a", "//", "a/b/", "../a",
	"é", "é", "Ω", "Ω", "Ω", "ключ", "数据库", "قاعدة", "😀", "a​b", "a\tb", "a\nb", "a%2Fb", "a%20b", "a?b", "a#b", "a\\b", "a:b",
	"bafyreiaqcgb4rd2doanu7r5e2nhmvu2jkm3wqrjhnt7uzig6pjhbx6lzhu", "zdpuAuSAkDDRm9KTciShAcph2epSZsNmfPeLQmxw6b5mdLmq5", "QmYwAPJzv5CZsnA625s3Xf2nemtYgPpHdWEz79ojWnPbdG",
	"orbitdb", "orbitdb/x", "/orbitdb/x", "ipfs/x",
	"orbitdb/bafyreiaqcgb4rd2doanu7r5e2nhmvu2jkm3wqrjhnt7uzig6pjhbx6lzhu/db", "/orbitdb/bafyreiaqcgb4rd2doanu7r5e2nhmvu2jkm3wqrjhnt7uzig6pjhbx6lzhu/db", "x/orbitdb/zdpuAuSAkDDRm9KTciShAcph2epSZsNmfPeLQmxw6b5mdLmq5/a/b", "orbitdb/zdpuAuSAkDDRm9KTciShAcph2epSZsNmfPeLQmxw6b5mdLmq5", strings.Repeat("n", 200), strings.Repeat("ab/", 40) + "z",
}

func c14Cases(tier string, seed int64) []fw.Case {
	n := 6
	per := 110
	if tier == "thorough" {
		n = 40
		per = 160
	}
	rng := rand.New(rand.NewSource(seed*920419823 + 14))
	var out []fw.Case
	for i := 0; i < n; i++ {
		out = append(out, fw.Case{Idx: i, Seed: rng.Int63(), P: map[string]interface{}{"tuples": per, "opens": 10, "batch": i}})
	}
	return out
}

type c14Tuple struct {
	name string
	typ  string
	list string // none | a | ab | ba | abc | wild
}

func c14Run(c fw.Case) fw.Verdict {
	e := NewEnv()
	defer e.Close()
	v := fw.Verdict{}
	rng := rand.New(rand.NewSource(c.Seed))
	var peers []*sim.Peer
	for i := 0; i < 3; i++ {
		p, err := e.W.AddPeer(sim.PeerOpts{OnDisk: i == 0})
		if err != nil {
			return fw.Verdict{Status: fw.Inconclusive, What: err.Error()}
		}
		peers = append(peers, p)
	}
	e.W.Instant = true
	ids := idsOf(peers...)
	listOf := func(l string) []string {
		switch l {
		case "a":
			return []string{ids[0]}
		case "ab":
			return []string{ids[0], ids[1]}
		case "ba":
			return []string{ids[1], ids[0]}
		case "abc":
			return []string{ids[0], ids[1], ids[2]}
		case "wild":
			return []string{"*"}
		}
		return nil
	}
	lists := []string{"none", "a", "ab", "ba", "abc", "wild"}
	// tuple generation: fixed hostile names first (rotating through types/lists by batch), then compositions
	var tuples []c14Tuple
	b := c.Int("batch", 0)
	for i, n := range c14Names {
		tuples = append(tuples, c14Tuple{n, storeTypes[(i+b)%3], lists[(i+b*2)%len(lists)]})
	}
	pieces := []string{"a", "b", "/", ".", "..", " ", "é", "é", "ключ", "%2F", "x", "-", "_", "0"}
	for len(tuples) < c.Int("tuples", 100) {
		var sb strings.Builder
		for j := 0; j < 1+rng.Intn(6); j++ {
			sb.WriteString(pieces[rng.Intn(len(pieces))])
		}
		tuples = append(tuples, c14Tuple{sb.String(), storeTypes[rng.Intn(3)], lists[rng.Intn(len(lists))]})
	}
	// same name with every type and list, to exercise injectivity on type / list
	for _, t := range storeTypes {
		for _, l := range lists {
			tuples = append(tuples, c14Tuple{"same-name", t, l})
		}
	}

	addrOn := func(p *sim.Peer, t c14Tuple) (string, error) {
		opts := &iface.DetermineAddressOptions{}
		if l := listOf(t.list); l != nil {
			opts.AccessController = writeAC(l...)
		}
		ctx, cancel := context.WithTimeout(bg, 20*time.Second)
		defer cancel()
		a, err := p.DB.DetermineAddress(ctx, t.name, t.typ, opts)
		if err != nil {
			return "", err
		}
		return a.String(), nil
	}
	seen := map[string]c14Tuple{}
	done := map[c14Tuple]bool{}
	accepted := 0
	var samples []string
	type created struct {
		t    c14Tuple
		addr string
	}
	var acceptedTuples []created
	derived := 0
	for ti := 0; ti < len(tuples); ti++ {
		t := tuples[ti]
		if done[t] {
			continue
		}
		done[t] = true
		key := fmt.Sprintf("%q/%s/%s", t.name, t.typ, t.list)
		var addrs []string
		var errs []string
		for _, p := range peers {
			tt := t
			if t.list == "none" && p != peers[0] {
				tt.list = "a" // another peer computes the explicit [creator id]
			}
			a, err := addrOn(p, tt)
			if err != nil {
				errs = append(errs, err.Error())
				addrs = append(addrs, "")
			} else {
				errs = append(errs, "")
				addrs = append(addrs, a)
			}
		}
		v.Count("tuples", 1)
		v.Sigs = append(v.Sigs, fw.HashSig(key))
		refused := 0
		for _, er := range errs {
			if er != "" {
				refused++
			}
		}
		if refused > 0 {
			v.Count("names_refused", 1)
			if refused != len(peers) {
				return fw.Verdict{Status: fw.Violated, Key: "refused-on-some-peers-only", NonTrivial: true, What: fmt.Sprintf("input %s is refused by %d of %d peers: %v", key, refused, len(peers), errs)}
			}
			continue
		}
		accepted++
		for i := 1; i < len(addrs); i++ {
			if addrs[i] != addrs[0] {
				return fw.Verdict{Status: fw.Violated, Key: "address-not-deterministic", NonTrivial: true, What: fmt.Sprintf("input %s: peer 0 computes %s, peer %d computes %s", key, addrs[0], i, addrs[i])}
			}
		}
		a := addrs[0]
		canon := t
		if canon.list == "none" {
			canon.list = "a"
		}
		if prev, dup := seen[a]; dup && prev != canon {
			return fw.Verdict{Status: fw.Violated, Key: "address-collision", NonTrivial: true, What: fmt.Sprintf("inputs %q/%s/%s and %q/%s/%s have the same address %s", prev.name, prev.typ, prev.list, canon.name, canon.typ, canon.list, a)}
		}
		seen[a] = canon
		// parse round trip
		pa, err := address.Parse(a)
		if err != nil {
			return fw.Verdict{Status: fw.Violated, Key: "address-does-not-parse", NonTrivial: true, What: fmt.Sprintf("input %s: printed address %q does not parse: %v", key, a, err)}
		}
		if pa.String() != a {
			return fw.Verdict{Status: fw.Violated, Key: "address-round-trip", NonTrivial: true, What: fmt.Sprintf("input %s: Parse(%q).String() = %q", key, a, pa.String())}
		}
		pb, err := address.Parse(pa.String())
		if err != nil || !pb.GetRoot().Equals(pa.GetRoot()) || pb.GetPath() != pa.GetPath() {
			return fw.Verdict{Status: fw.Violated, Key: "address-round-trip", NonTrivial: true, What: fmt.Sprintf("input %s: root/path change when the address is parsed again", key)}
		}
		v.Count("round_trips", 1)
		if len(samples) < 6 {
			samples = append(samples, key+" -> "+a)
		}
		acceptedTuples = append(acceptedTuples, created{t, a})
		// databases NAMED after the address of another database (as printed, without its leading slash, and
		// with something in front): the address of a database is self-describing, a name is opaque
		if derived < 4 && !strings.Contains(t.name, "orbitdb") && len(t.name) < 40 {
			derived++
			for _, nm := range []string{strings.TrimPrefix(a, "/"), a, "x" + a} {
				tuples = append(tuples, c14Tuple{nm, storeTypes[(ti+derived)%3], t.list})
				v.Count("names_derived_from_an_address", 1)
			}
		}
	}
	// open / create / overwrite / local-only on a sample
	rng.Shuffle(len(acceptedTuples), func(i, j int) { acceptedTuples[i], acceptedTuples[j] = acceptedTuples[j], acceptedTuples[i] })
	opens := 0
	for _, ct := range acceptedTuples {
		if opens >= c.Int("opens", 10) {
			break
		}
		t := ct.t
		key := fmt.Sprintf("%q/%s/%s", t.name, t.typ, t.list)
		opts := &iface.CreateDBOptions{}
		if l := listOf(t.list); l != nil {
			opts.AccessController = writeAC(l...)
		}
		ctx, cancel := context.WithTimeout(bg, 30*time.Second)
		// local-only open of a database nobody created yet
		lo := true
		if s, err := peers[1].DB.Open(ctx, ct.addr, &iface.CreateDBOptions{LocalOnly: &lo}); err == nil {
			s.Close()
			cancel()
			return fw.Verdict{Status: fw.Violated, Key: "local-only-open-of-unknown-accepted", NonTrivial: true, What: fmt.Sprintf("input %s: LocalOnly open of a database this peer never had succeeded", key)}
		}
		s, err := peers[0].DB.Create(ctx, t.name, t.typ, opts)
		if err != nil {
			cancel()
			v.Count("create_refused_after_address_ok", 1)
			continue
		}
		opens++
		if s.Address().String() != ct.addr {
			cancel()
			return fw.Verdict{Status: fw.Violated, Key: "create-address-differs", NonTrivial: true, What: fmt.Sprintf("input %s: Create gives %s, DetermineAddress gave %s", key, s.Address(), ct.addr)}
		}
		// second create refused, accepted with overwrite
		opts2 := &iface.CreateDBOptions{}
		if l := listOf(t.list); l != nil {
			opts2.AccessController = writeAC(l...)
		}
		_ = s.Close()
		if s2, err := peers[0].DB.Create(ctx, t.name, t.typ, opts2); err == nil {
			s2.Close()
			cancel()
			return fw.Verdict{Status: fw.Violated, Key: "second-create-accepted", NonTrivial: true, What: fmt.Sprintf("input %s: creating over an existing local database without Overwrite succeeded", key)}
		}
		ow := true
		opts3 := &iface.CreateDBOptions{Overwrite: &ow}
		if l := listOf(t.list); l != nil {
			opts3.AccessController = writeAC(l...)
		}
		s3, err := peers[0].DB.Create(ctx, t.name, t.typ, opts3)
		if err != nil {
			cancel()
			return fw.Verdict{Status: fw.Violated, Key: "create-with-overwrite-refused", NonTrivial: true, What: fmt.Sprintf("input %s: Create with Overwrite over an existing database failed: %v", key, err)}
		}
		// open on another peer
		so, err := peers[2].DB.Open(ctx, ct.addr, &iface.CreateDBOptions{})
		if err != nil {
			cancel()
			return fw.Verdict{Status: fw.Violated, Key: "open-by-address-failed", NonTrivial: true, What: fmt.Sprintf("input %s: opening %s on another peer failed: %v", key, ct.addr, err)}
		}
		if so.Type() != t.typ {
			cancel()
			return fw.Verdict{Status: fw.Violated, Key: "open-wrong-type", NonTrivial: true, What: fmt.Sprintf("input %s: opened store has type %s", key, so.Type())}
		}
		got, _ := so.AccessController().GetAuthorizedByRole("write")
		want := listOf(t.list)
		if want == nil {
			want = []string{ids[0]}
		}
		g2, w2 := append([]string{}, got...), append([]string{}, want...)
		sort.Strings(g2)
		sort.Strings(w2)
		if !eqStrings(g2, w2) {
			cancel()
			return fw.Verdict{Status: fw.Violated, Key: "open-wrong-write-list", NonTrivial: true, What: fmt.Sprintf("input %s: opened store reports write list %v, created with %v", key, got, want)}
		}
		if so.Address().String() != ct.addr {
			cancel()
			return fw.Verdict{Status: fw.Violated, Key: "open-address-differs", NonTrivial: true, What: fmt.Sprintf("input %s: opened store has address %s", key, so.Address())}
		}
		v.Count("create_open_checks", 1)
		_ = so.Close()
		_ = s3.Close()
		cancel()
	}
	// ---- one access-controller parameters VALUE reused for several databases, its write list changed in
	// between: the address is a function of the inputs, not of what the value was used for before ----
	{
		shared := writeAC(ids[2])
		reused := 0
		var last created
		for _, ct := range acceptedTuples {
			l := listOf(ct.t.list)
			if l == nil {
				continue
			}
			if reused >= 8 {
				break
			}
			shared.SetAccess("write", l)
			ctx, cancel := context.WithTimeout(bg, 20*time.Second)
			a, err := peers[0].DB.DetermineAddress(ctx, ct.t.name, ct.t.typ, &iface.DetermineAddressOptions{AccessController: shared})
			cancel()
			key := fmt.Sprintf("%q/%s/%s", ct.t.name, ct.t.typ, ct.t.list)
			if err != nil {
				return fw.Verdict{Status: fw.Violated, Key: "reused-parameters/address-refused", NonTrivial: true, What: fmt.Sprintf("input %s is accepted with fresh parameters but refused with a parameters value used before: %v", key, err)}
			}
			if a.String() != ct.addr {
				return fw.Verdict{Status: fw.Violated, Key: "reused-parameters/address-not-deterministic", NonTrivial: true,
					What: fmt.Sprintf("input %s: every peer computes %s from fresh parameters, but %s when the parameters value was used for another database before (use %d)", key, ct.addr, a, reused+1)}
			}
			reused++
			last = ct
		}
		if reused > 0 {
			// and the database created from the reused value has the list given at creation
			l := listOf(last.t.list)
			shared.SetAccess("write", l)
			ctx, cancel := context.WithTimeout(bg, 30*time.Second)
			s, err := peers[0].DB.Create(ctx, "reused-"+last.t.name, last.t.typ, &iface.CreateDBOptions{AccessController: shared})
			if err == nil {
				so, err := peers[1].DB.Open(ctx, s.Address().String(), &iface.CreateDBOptions{})
				if err == nil {
					got, _ := so.AccessController().GetAuthorizedByRole("write")
					g2, w2 := append([]string{}, got...), append([]string{}, l...)
					sort.Strings(g2)
					sort.Strings(w2)
					_ = so.Close()
					if !eqStrings(g2, w2) {
						cancel()
						return fw.Verdict{Status: fw.Violated, Key: "reused-parameters/open-wrong-write-list", NonTrivial: true, What: fmt.Sprintf("database created with write list %v from a reused parameters value reports %v when opened on another peer", l, got)}
					}
				}
				_ = s.Close()
			}
			cancel()
		}
		v.Count("reused_parameter_value_checks", int64(reused))
	}
	// ---- Create with a non-default local directory: the overwrite rule must hold there too ----
	if len(acceptedTuples) > 0 {
		ct := acceptedTuples[len(acceptedTuples)-1]
		t := ct.t
		key := fmt.Sprintf("%q/%s/%s", t.name, t.typ, t.list)
		altDir := peers[0].Dir + "-alt"
		mk := func(ow bool) *iface.CreateDBOptions {
			o := &iface.CreateDBOptions{Directory: &altDir}
			if ow {
				o.Overwrite = &ow
			}
			if l := listOf(t.list); l != nil {
				o.AccessController = writeAC(l...)
			}
			return o
		}
		ctx, cancel := context.WithTimeout(bg, 30*time.Second)
		owner := peers[0] // the on-disk peer (an in-memory cache forgets its marker when the store closes)
		if s, err := owner.DB.Create(ctx, "altdir-"+t.name, t.typ, mk(false)); err == nil {
			_ = s.Close()
			v.Count("alt_directory_checks", 1)
			if s2, err := owner.DB.Create(ctx, "altdir-"+t.name, t.typ, mk(false)); err == nil {
				_ = s2.Close()
				cancel()
				return fw.Verdict{Status: fw.Violated, Key: "second-create-accepted/custom-directory", NonTrivial: true, What: fmt.Sprintf("input %s with CreateDBOptions.Directory: creating over an existing local database without Overwrite succeeded", key)}
			}
			if s3, err := owner.DB.Create(ctx, "altdir-"+t.name, t.typ, mk(true)); err != nil {
				cancel()
				return fw.Verdict{Status: fw.Violated, Key: "create-with-overwrite-refused/custom-directory", NonTrivial: true, What: fmt.Sprintf("input %s with CreateDBOptions.Directory: Create with Overwrite failed: %v", key, err)}
			} else {
				_ = s3.Close()
			}
		}
		cancel()
	}
	// ---- Open while one of the blocks it needs does not arrive before the deadline ----
	// (database manifest, access-controller manifest, write list): Open must either fail
	// or yield the recorded type and write list, never a store with another list.
	for k := 1; k <= 3 && len(acceptedTuples) > k; k++ {
		ct := acceptedTuples[k]
		t := ct.t
		key := fmt.Sprintf("%q/%s/%s", t.name, t.typ, t.list)
		opts := &iface.CreateDBOptions{}
		if l := listOf(t.list); l != nil {
			opts.AccessController = writeAC(l...)
		}
		cctx, ccancel := context.WithTimeout(bg, 30*time.Second)
		cs, err := peers[0].DB.Create(cctx, "fault-"+t.name, t.typ, opts)
		ccancel()
		if err != nil {
			continue
		}
		addr := cs.Address().String()
		_ = cs.Close()
		opener, err := e.W.AddPeer(sim.PeerOpts{})
		if err != nil {
			break
		}
		n := 0
		e.W.SetGate(func(ctx context.Context, to, from *sim.Peer, _ cid.Cid) error {
			if to != opener {
				return nil
			}
			n++
			if n == k {
				<-ctx.Done() // this block never arrives
				return ctx.Err()
			}
			return nil
		})
		octx, ocancel := context.WithTimeout(bg, 400*time.Millisecond)
		so, err := opener.DB.Open(octx, addr, &iface.CreateDBOptions{})
		ocancel()
		e.W.SetGate(nil)
		v.Count("open_with_missing_block_checks", 1)
		if err == nil {
			got, _ := so.AccessController().GetAuthorizedByRole("write")
			want := listOf(t.list)
			if want == nil {
				want = []string{ids[0]}
			}
			g2, w2 := append([]string{}, got...), append([]string{}, want...)
			sort.Strings(g2)
			sort.Strings(w2)
			typOK := so.Type() == t.typ
			_ = so.Close()
			if !eqStrings(g2, w2) || !typOK {
				return fw.Verdict{Status: fw.Violated, Key: "open-wrong-write-list/block-missing", NonTrivial: true,
					What: fmt.Sprintf("input %s: with the %d-th block needed by Open not arriving before the deadline, Open succeeded with type %s and write list %v (created with %v)", key, k, so.Type(), got, want)}
			}
		}
		opener.Destroy()
	}
	v.Count("names_accepted", int64(accepted))
	v.Count("distinct_addresses", int64(len(seen)))
	v.Status = fw.Held
	v.NonTrivial = accepted > 0
	v.Sig = fw.HashSig("batch", c.Seed)
	v.Sample = map[string]interface{}{"tuples": len(done), "accepted": accepted, "examples": samples}
	return v
}
