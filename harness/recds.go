package main

import (
	"context"
	"sync"

	"berty.tech/go-orbit-db/address"
	"berty.tech/go-orbit-db/cache"
	ds "github.com/ipfs/go-datastore"
	"github.com/ipfs/go-datastore/query"
	dsync "github.com/ipfs/go-datastore/sync"
)

// Effect is one persistence effect issued by the process under test.
type Effect struct {
	Area  string // "repo" | "keystore" | "cache:<key>"
	Del   bool
	Key   string
	Value []byte
}

// EffectLog is the ordered log of persistence effects plus acknowledgement
// marks stamped with the effect index at which they were observed.
type EffectLog struct {
	mu       sync.Mutex
	Effects  []Effect
	Marks    []Mark
	OnEffect func(n int) // called after the n-th effect returned (self-kill mode)
}

type Mark struct {
	At     int // number of effects issued when the acknowledgement was observed
	Kind   string
	Hashes []string
}

func (l *EffectLog) add(e Effect) {
	l.mu.Lock()
	l.Effects = append(l.Effects, e)
	n := len(l.Effects)
	f := l.OnEffect
	l.mu.Unlock()
	if f != nil {
		f(n)
	}
}

func (l *EffectLog) Len() int {
	l.mu.Lock()
	defer l.mu.Unlock()
	return len(l.Effects)
}

func (l *EffectLog) Mark(kind string, hashes ...string) {
	l.mu.Lock()
	l.Marks = append(l.Marks, Mark{At: len(l.Effects), Kind: kind, Hashes: hashes})
	l.mu.Unlock()
}

// recDS records every write reaching the wrapped datastore.
type recDS struct {
	ds.Batching
	log  *EffectLog
	area string
}

func newRecDS(log *EffectLog, area string) *recDS {
	return &recDS{Batching: dsync.MutexWrap(ds.NewMapDatastore()), log: log, area: area}
}

func (r *recDS) Put(ctx context.Context, key ds.Key, value []byte) error {
	if err := r.Batching.Put(ctx, key, value); err != nil {
		return err
	}
	r.log.add(Effect{Area: r.area, Key: key.String(), Value: append([]byte{}, value...)})
	return nil
}

func (r *recDS) Delete(ctx context.Context, key ds.Key) error {
	if err := r.Batching.Delete(ctx, key); err != nil {
		return err
	}
	r.log.add(Effect{Area: r.area, Del: true, Key: key.String()})
	return nil
}

type recBatch struct {
	r   *recDS
	ops []Effect
}

func (r *recDS) Batch(ctx context.Context) (ds.Batch, error) { return &recBatch{r: r}, nil }

func (b *recBatch) Put(ctx context.Context, key ds.Key, value []byte) error {
	b.ops = append(b.ops, Effect{Key: key.String(), Value: append([]byte{}, value...)})
	return nil
}

func (b *recBatch) Delete(ctx context.Context, key ds.Key) error {
	b.ops = append(b.ops, Effect{Del: true, Key: key.String()})
	return nil
}

func (b *recBatch) Commit(ctx context.Context) error {
	for _, op := range b.ops {
		if op.Del {
			if err := b.r.Delete(ctx, ds.NewKey(op.Key)); err != nil {
				return err
			}
		} else if err := b.r.Put(ctx, ds.NewKey(op.Key), op.Value); err != nil {
			return err
		}
	}
	b.ops = nil
	return nil
}

func (r *recDS) Query(ctx context.Context, q query.Query) (query.Results, error) {
	return r.Batching.Query(ctx, q)
}

// recCache implements cache.Interface on recording in-memory datastores.
type recCache struct {
	mu   sync.Mutex
	log  *EffectLog
	dss  map[string]*recDS
	seed map[string]map[string][]byte // initial contents (replay)
}

func newRecCache(log *EffectLog) *recCache {
	return &recCache{log: log, dss: map[string]*recDS{}, seed: map[string]map[string][]byte{}}
}

func cacheKey(directory string, a address.Address) string {
	return a.GetRoot().String() + "/" + a.GetPath()
}

type noCloseDS struct{ *recDS }

func (noCloseDS) Close() error { return nil }

func (c *recCache) Load(directory string, a address.Address) (ds.Datastore, error) {
	c.mu.Lock()
	defer c.mu.Unlock()
	k := cacheKey(directory, a)
	d, ok := c.dss[k]
	if !ok {
		d = newRecDS(c.log, "cache:"+k)
		for key, val := range c.seed[k] {
			_ = d.Batching.Put(context.Background(), ds.NewKey(key), val)
		}
		c.dss[k] = d
	}
	return noCloseDS{d}, nil
}

func (c *recCache) Close() error { return nil }

func (c *recCache) Destroy(directory string, a address.Address) error {
	c.mu.Lock()
	defer c.mu.Unlock()
	k := cacheKey(directory, a)
	if d, ok := c.dss[k]; ok {
		res, err := d.Batching.Query(context.Background(), query.Query{KeysOnly: true})
		if err == nil {
			es, _ := res.Rest()
			for _, e := range es {
				_ = d.Delete(context.Background(), ds.NewKey(e.Key))
			}
		}
	}
	delete(c.dss, k)
	return nil
}

var _ cache.Interface = &recCache{}

// Replay builds the three stores holding exactly effects[0:k].
func Replay(effects []Effect, k int) (repo ds.Batching, ks ds.Batching, c *recCache) {
	repo = dsync.MutexWrap(ds.NewMapDatastore())
	ks = dsync.MutexWrap(ds.NewMapDatastore())
	c = newRecCache(&EffectLog{})
	ctx := context.Background()
	for _, e := range effects[:k] {
		switch {
		case e.Area == "repo":
			if e.Del {
				_ = repo.Delete(ctx, ds.NewKey(e.Key))
			} else {
				_ = repo.Put(ctx, ds.NewKey(e.Key), e.Value)
			}
		case e.Area == "keystore":
			if e.Del {
				_ = ks.Delete(ctx, ds.NewKey(e.Key))
			} else {
				_ = ks.Put(ctx, ds.NewKey(e.Key), e.Value)
			}
		default:
			k := e.Area[len("cache:"):]
			if c.seed[k] == nil {
				c.seed[k] = map[string][]byte{}
			}
			if e.Del {
				delete(c.seed[k], e.Key)
			} else {
				c.seed[k][e.Key] = e.Value
			}
		}
	}
	return
}
