package main

import (
	"context"
	"fmt"
	"math/rand"
	"sort"
	"strings"
	"sync"
	"sync/atomic"
	"time"

	ipfslog "berty.tech/go-ipfs-log"
	"berty.tech/go-orbit-db/iface"
	"berty.tech/go-orbit-db/stores/basestore"
	cid "github.com/ipfs/go-cid"

	"verifharness/fw"
	"verifharness/sim"
)

// ScenCfg parametrises the generic multi-replica scenario.
type ScenCfg struct {
	Type    string
	NPeers  int
	Writers []int // peer indices that write; nil = all
	NSteps  int
	Keys    []string
	OnDisk  bool
	Wild    bool // wildcard write list instead of explicit ids

	// weights of step kinds
	WWrite, WDeliver, WDeliverAll, WDrop, WDup, WCut, WHeal, WRestart, WSync, WConc, WBurst, WFaultyDeliver, WHoleHeal, WSnapshot, WWriteMid int
	SnapFresh                                                                                                                                bool // snap steps may also restart a peer and load only its snapshot
	CheckEvery                                                                                                                               int
}

type Step struct {
	K  string  `json:"k"`
	A  int     `json:"a,omitempty"`
	B  int     `json:"b,omitempty"`
	Op *Op     `json:"op,omitempty"`
	R  float64 `json:"r,omitempty"`
	N  int     `json:"n,omitempty"`
}

func (s Step) String() string {
	switch s.K {
	case "w":
		return fmt.Sprintf("w%d:%s", s.A, s.Op)
	case "conc":
		return fmt.Sprintf("conc%d:%s", s.A, s.Op)
	case "cut", "heal", "sync", "hh", "wmid":
		return fmt.Sprintf("%s(%d,%d)", s.K, s.A, s.B)
	case "restart":
		return fmt.Sprintf("restart(%d)", s.A)
	case "snap":
		return fmt.Sprintf("snap(%d)", s.A)
	case "burst":
		return fmt.Sprintf("burst(%d)", s.N)
	default:
		return s.K
	}
}

type Violation struct {
	Key  string
	What string
}

// Runner executes a scenario on real stores and keeps what the oracles need.
type Runner struct {
	E     *Env
	Cfg   ScenCfg
	Peers []*sim.Peer
	DB    *DB
	Rng   *rand.Rand

	mu             sync.Mutex
	Universe       map[string]*EntryInfo
	Acked          []string                   // hashes of acknowledged writes, in ack order
	SeenAtWrite    map[string]map[string]bool // hash -> hashes in the writer's log before the write
	WriterOf       map[string]int
	Counter        int
	Trace          []string
	V              fw.Verdict
	Checks         []func(r *Runner, snaps []*Snap, label string) *Violation
	prevSnap       map[int]*Snap
	Lost           int
	Restarts       int
	Cuts           int
	ConcSteps      int
	FaultyFetches  int
	HoleHeals      int
	SnapLoads      int
	MidWrites      int
	SnapFreshLoads int
	snapSaved      map[int]bool
	Checkpoints    int
	Compared       int
	failed         *Violation
	watchdog       bool
	stale          map[int]bool // peers whose view may lag their log after an injected datastore failure
	PeerOpts       func(i int, o *sim.PeerOpts)
	OnStep         func(si int, st Step)
}

func (r *Runner) logf(f string, a ...interface{}) {
	r.mu.Lock()
	if len(r.Trace) < 400 {
		r.Trace = append(r.Trace, fmt.Sprintf(f, a...))
	}
	r.mu.Unlock()
}

func (r *Runner) writers() []int {
	if r.Cfg.Writers != nil {
		return r.Cfg.Writers
	}
	out := make([]int, r.Cfg.NPeers)
	for i := range out {
		out[i] = i
	}
	return out
}

// GenOp draws a store-specific operation. The writer's current view is used
// only to bias deletes towards existing keys.
func (r *Runner) GenOp(rng *rand.Rand) Op {
	r.Counter++
	n := r.Counter
	keys := r.Cfg.Keys
	k := keys[rng.Intn(len(keys))]
	switch r.Cfg.Type {
	case tEvent:
		return Op{Kind: "add", Val: []byte(fmt.Sprintf("e%d", n))}
	case tKV:
		x := rng.Intn(10)
		switch {
		case x < 3:
			return Op{Kind: "del", Key: k}
		case x == 3:
			return Op{Kind: "put", Key: k, Val: nil} // empty value
		case x == 4:
			return Op{Kind: "put", Key: k, Val: []byte{0, 255, byte(n), 0}} // binary
		default:
			return Op{Kind: "put", Key: k, Val: []byte(fmt.Sprintf("v%d", n))}
		}
	default:
		x := rng.Intn(10)
		mk := func(id string) Doc {
			r.Counter++
			return Doc{ID: id, N: r.Counter, Tag: fmt.Sprintf("t%d", r.Counter%3)}
		}
		switch {
		case x < 2:
			return Op{Kind: "del", Key: k}
		case x < 4:
			ds := []Doc{}
			for _, i := range rng.Perm(len(keys))[:1+rng.Intn(minInt(3, len(keys)))] {
				ds = append(ds, mk(keys[i]))
			}
			if rng.Intn(3) == 0 {
				// the same key twice in one batch, with different contents: the later one wins
				ds = append(ds, mk(ds[rng.Intn(len(ds))].ID))
			}
			return Op{Kind: "putall", Docs: ds}
		case x == 4:
			ds := []Doc{}
			for _, i := range rng.Perm(len(keys))[:1+rng.Intn(minInt(2, len(keys)))] {
				ds = append(ds, mk(keys[i]))
			}
			if rng.Intn(3) == 0 {
				ds = append(ds, mk(ds[0].ID))
			}
			return Op{Kind: "putbatch", Docs: ds}
		default:
			return Op{Kind: "put", Key: k, Docs: []Doc{mk(k)}}
		}
	}
}

func minInt(a, b int) int {
	if a < b {
		return a
	}
	return b
}

// GenSteps draws the step list.
func (r *Runner) GenSteps(rng *rand.Rand) []Step {
	c := r.Cfg
	type wk struct {
		k string
		w int
	}
	ws := []wk{{"w", c.WWrite}, {"d", c.WDeliver}, {"da", c.WDeliverAll}, {"drop", c.WDrop}, {"dup", c.WDup}, {"cut", c.WCut}, {"heal", c.WHeal}, {"restart", c.WRestart}, {"sync", c.WSync}, {"conc", c.WConc}, {"burst", c.WBurst}, {"fd", c.WFaultyDeliver}, {"hh", c.WHoleHeal}, {"snap", c.WSnapshot}, {"wmid", c.WWriteMid}}
	tot := 0
	for _, x := range ws {
		tot += x.w
	}
	wr := r.writers()
	var steps []Step
	for i := 0; i < c.NSteps; i++ {
		x := rng.Intn(tot)
		k := ""
		for _, y := range ws {
			if x < y.w {
				k = y.k
				break
			}
			x -= y.w
		}
		st := Step{K: k, R: rng.Float64()}
		switch k {
		case "wmid":
			// A: the writer that is behind and writes in the middle of its replication; B: the writer it replicates from
			st.A = wr[rng.Intn(len(wr))]
			st.B = wr[rng.Intn(len(wr))]
			st.N = 2 + rng.Intn(3) // fetches let through before the rest is parked
			op := r.GenOp(rng)
			st.Op = &op
		case "hh":
			st.A = wr[rng.Intn(len(wr))]
			st.B = rng.Intn(c.NPeers - 1)
			if st.B >= st.A {
				st.B++
			}
			st.N = 2 + rng.Intn(3)
		case "w", "conc":
			st.A = wr[rng.Intn(len(wr))]
			op := r.GenOp(rng)
			st.Op = &op
		case "cut", "heal", "sync":
			st.A = rng.Intn(c.NPeers)
			st.B = rng.Intn(c.NPeers - 1)
			if st.B >= st.A {
				st.B++
			}
		case "restart", "snap":
			st.A = rng.Intn(c.NPeers)
		case "burst":
			st.N = 2 + rng.Intn(3)
		}
		steps = append(steps, st)
		if c.CheckEvery > 0 && (i+1)%c.CheckEvery == 0 {
			steps = append(steps, Step{K: "check"})
		}
	}
	return steps
}

// Setup creates peers and the database.
func (r *Runner) Setup() error {
	for i := 0; i < r.Cfg.NPeers; i++ {
		po := sim.PeerOpts{OnDisk: r.Cfg.OnDisk}
		if r.PeerOpts != nil {
			r.PeerOpts(i, &po)
		}
		p, err := r.E.W.AddPeer(po)
		if err != nil {
			return err
		}
		r.Peers = append(r.Peers, p)
	}
	var ids []string
	if r.Cfg.Wild {
		ids = []string{"*"}
	} else {
		for _, i := range r.writers() {
			ids = append(ids, r.Peers[i].DB.Identity().ID)
		}
	}
	db, err := r.E.CreateDB("db", r.Cfg.Type, r.Peers[0], r.Peers[1:], ids)
	if err != nil {
		return err
	}
	r.DB = db
	r.Universe = map[string]*EntryInfo{}
	r.SeenAtWrite = map[string]map[string]bool{}
	r.WriterOf = map[string]int{}
	r.prevSnap = map[int]*Snap{}
	return nil
}

func (r *Runner) settle() bool {
	ok := r.E.W.WaitIdle(sim.IdleOpts{})
	if !ok {
		r.watchdog = true
	}
	return ok
}

func (r *Runner) store(i int) iface.Store { return r.DB.Stores[i] }

// Write performs op on peer i and records the acknowledgement.
func (r *Runner) Write(i int, op Op) error { return r.write(i, op, false) }

func (r *Runner) write(i int, op Op, concurrent bool) error {
	s := r.store(i)
	if s == nil || !r.Peers[i].Running() {
		return fmt.Errorf("peer down")
	}
	before := map[string]bool{}
	for _, e := range s.OpLog().GetEntries().Slice() {
		before[e.GetHash().String()] = true
	}
	beforeLen := len(before)
	var present, judgeDel bool
	if r.Cfg.Type == tDocs && op.Kind == "del" && !concurrent && !r.stale[i] {
		sn := TakeSnap(tDocs, s, i)
		_, present = ModelDocs(sn.Entries, sn.Order)[op.Key]
		judgeDel = true
	}
	res, err := ApplyOp(bg, s, op)
	injected := err != nil && strings.Contains(err.Error(), "sim: injected")
	if injected {
		// the entry is in the log but the call failed before the view was rebuilt: no expectation about
		// presence checks on this peer until its next successful write or merge
		r.logf("write p%d %s -> injected datastore failure (not acknowledged)", i, op)
		if r.stale == nil {
			r.stale = map[int]bool{}
		}
		r.stale[i] = true
		return err
	}
	if err == nil && r.stale != nil {
		delete(r.stale, i)
	}
	if judgeDel {
		r.V.Count("doc_delete_presence_checks", 1)
		if present && err != nil {
			r.fail("delete-of-present-key-refused", fmt.Sprintf("p%d Delete(%q) of a document present in the replay was refused: %v", i, op.Key, err))
		} else if !present && err == nil {
			r.fail("delete-of-absent-key-accepted", fmt.Sprintf("p%d Delete(%q) of a document absent from the replay was accepted", i, op.Key))
		}
	}
	if err != nil {
		r.logf("write p%d %s -> error %v", i, op, err)
		// a refused write must not append: no new entry of this replica's own identity (the log may grow
		// meanwhile because a merge of remote entries runs next to the call)
		if op.Kind != "putbatch" {
			for _, e := range s.OpLog().GetEntries().Slice() {
				if before[e.GetHash().String()] || e.GetIdentity() == nil || e.GetIdentity().ID != s.Identity().ID {
					continue
				}
				r.fail("refused-write-appended", fmt.Sprintf("p%d %s returned %v but an entry of this replica's own identity was appended (%s; log length %d -> %d)", i, op, err, short(e.GetHash().String()), beforeLen, s.OpLog().Len()))
				break
			}
		}
		return err
	}
	// find new entries authored here
	for _, e := range s.OpLog().GetEntries().Slice() {
		h := e.GetHash().String()
		if before[h] {
			continue
		}
		if e.GetIdentity() != nil && e.GetIdentity().ID == s.Identity().ID {
			r.mu.Lock()
			if _, ok := r.WriterOf[h]; !ok {
				r.WriterOf[h] = i
				r.Universe[h] = infoOf(e)
				r.SeenAtWrite[h] = before
				r.Acked = append(r.Acked, h)
			}
			r.mu.Unlock()
		}
	}
	if res != nil && res.GetEntry() != nil {
		h := res.GetEntry().GetHash().String()
		r.mu.Lock()
		if _, ok := r.WriterOf[h]; !ok {
			r.WriterOf[h] = i
			r.Universe[h] = infoOf(res.GetEntry())
			r.SeenAtWrite[h] = before
			r.Acked = append(r.Acked, h)
		}
		r.mu.Unlock()
	}
	r.logf("write p%d %s ok", i, op)
	return nil
}

func (r *Runner) fail(key, what string) {
	r.mu.Lock()
	if r.failed == nil {
		r.failed = &Violation{Key: key, What: what}
	}
	r.mu.Unlock()
}

func (r *Runner) pickMsg(rf float64) *sim.Msg {
	pool := r.E.W.Inflight()
	if len(pool) == 0 {
		return nil
	}
	return pool[int(rf*float64(len(pool)))%len(pool)]
}

// Restart closes and reopens the orbit-db instance of peer i, reopens the
// database and loads it (before anything is written through it again).
func (r *Runner) Restart(i int) error {
	p := r.Peers[i]
	p.Stop()
	r.settle()
	if err := p.Start(); err != nil {
		return err
	}
	if err := r.E.OpenOn(r.DB, p); err != nil {
		return err
	}
	if err := r.store(i).Load(bg, -1); err != nil {
		return fmt.Errorf("load after restart: %w", err)
	}
	r.Restarts++
	delete(r.prevSnap, i)
	return nil
}

// Exec runs the steps. It stops at the first violation.
func (r *Runner) Exec(steps []Step) {
	w := r.E.W
	for si, st := range steps {
		if r.failed != nil || r.watchdog {
			return
		}
		if r.OnStep != nil {
			r.OnStep(si, st)
		}
		switch st.K {
		case "w":
			_ = r.Write(st.A, *st.Op)
			r.settle()
		case "conc":
			// a local write racing the merge of an in-flight message on the same replica
			m := (*sim.Msg)(nil)
			for _, x := range w.Inflight() {
				if x.To == st.A {
					m = x
					break
				}
			}
			var wg sync.WaitGroup
			if m != nil {
				w.Take(m.ID)
				wg.Add(1)
				go func() { defer wg.Done(); w.Deliver(m) }()
				r.ConcSteps++
			}
			wg.Add(1)
			go func() { defer wg.Done(); _ = r.write(st.A, *st.Op, true) }()
			wg.Wait()
			r.settle()
		case "d":
			if m := r.pickMsg(st.R); m != nil {
				w.Take(m.ID)
				if !w.Deliver(m) {
					r.Lost++
				}
				r.logf("deliver %s %d->%d", m.Kind, m.From, m.To)
				r.settle()
			}
		case "wmid":
			// a local write in the middle of a replication: B writes a backlog, A receives its newest
			// announcement, N block fetches go through, the others are parked; A writes; the fetches resume
			A, B := r.Peers[st.A], r.Peers[st.B]
			if st.A == st.B || !A.Running() || !B.Running() || !w.Linked(A, B) {
				break
			}
			for _, m := range w.Inflight() {
				if m.From == st.B && m.To == st.A {
					w.Take(m.ID)
					r.Lost++
				}
			}
			for k := 0; k < st.N+3; k++ {
				_ = r.Write(st.B, r.GenOp(r.Rng))
				r.settle()
			}
			var newest *sim.Msg
			for _, m := range w.Inflight() {
				if m.From == st.B && m.To == st.A && m.Kind == "pub" {
					if newest != nil {
						w.Take(newest.ID)
					}
					newest = m
				}
			}
			if newest == nil {
				break
			}
			w.Take(newest.ID)
			release := make(chan struct{})
			var through int64
			w.SetGate(func(ctx context.Context, to, from *sim.Peer, _ cid.Cid) error {
				if to != A || atomic.AddInt64(&through, 1) <= int64(st.N) {
					return nil
				}
				w.HoldBlocked(1)
				defer w.HoldBlocked(-1)
				select {
				case <-release:
				case <-ctx.Done():
					return ctx.Err()
				}
				return nil
			})
			w.Deliver(newest)
			w.WaitIdle(sim.IdleOpts{BlockedOK: true, IgnoreReplicators: true, Watchdog: 20 * time.Second})
			parked := w.Blocked()
			_ = r.write(st.A, *st.Op, true)
			w.WaitIdle(sim.IdleOpts{BlockedOK: true, IgnoreReplicators: true, Watchdog: 20 * time.Second})
			close(release)
			w.SetGate(nil)
			r.settle()
			if parked > 0 {
				r.MidWrites++
			}
			r.logf("write in the middle of a replication %d<-%d (%d fetches through, %d parked)", st.A, st.B, st.N, parked)
		case "hh":
			// hole then heal: B receives only A's newest head while none of its ancestors can be fetched
			// (the head is merged alone, above a hole); the same announcement is then delivered again
			// and the ancestors join BELOW the unchanged head
			A, B := r.Peers[st.A], r.Peers[st.B]
			if !A.Running() || !B.Running() || !w.Linked(A, B) {
				break
			}
			for _, m := range w.Inflight() {
				if m.From == st.A && m.To == st.B {
					w.Take(m.ID)
					r.Lost++
				}
			}
			for k := 0; k < st.N; k++ {
				_ = r.Write(st.A, r.GenOp(r.Rng))
				r.settle()
			}
			var newest *sim.Msg
			for _, m := range w.Inflight() {
				if m.From == st.A && m.To == st.B && m.Kind == "pub" {
					if newest != nil {
						w.Take(newest.ID)
					}
					newest = m
				}
			}
			if newest == nil {
				break
			}
			w.Take(newest.ID)
			w.SetGate(func(ctx context.Context, to, from *sim.Peer, _ cid.Cid) error {
				if to == B {
					return fmt.Errorf("sim: injected fetch failure")
				}
				return nil
			})
			w.Deliver(newest)
			r.settle()
			w.SetGate(nil)
			r.Checkpoint(fmt.Sprintf("step%d/hole", si))
			w.Deliver(newest)
			r.settle()
			r.HoleHeals++
			r.logf("hole-heal %d->%d (%d writes)", st.A, st.B, st.N)
		case "snap":
			// save a snapshot, or load the one saved earlier into the LIVE store (which may have grown since)
			if s := r.store(st.A); s != nil && r.Peers[st.A].Running() {
				if r.snapSaved == nil {
					r.snapSaved = map[int]bool{}
				}
				if !r.snapSaved[st.A] || st.R < 0.4 {
					sctx, scancel := context.WithTimeout(bg, 30*time.Second)
					if _, err := basestore.SaveSnapshot(sctx, s); err == nil {
						r.snapSaved[st.A] = true
						r.logf("snapshot saved on p%d (%d entries)", st.A, s.OpLog().Len())
					}
					scancel()
				} else if r.Cfg.SnapFresh && r.Cfg.OnDisk && st.R >= 0.75 {
					// restart, then load ONLY the snapshot into the fresh store
					p := r.Peers[st.A]
					p.Stop()
					r.settle()
					err := p.Start()
					if err == nil {
						err = r.E.OpenOn(r.DB, p)
					}
					if err != nil {
						r.fail("restart-failed", err.Error())
						break
					}
					lctx, lcancel := context.WithTimeout(bg, 30*time.Second)
					err = r.store(st.A).LoadFromSnapshot(lctx)
					lcancel()
					r.Restarts++
					r.SnapFreshLoads++
					delete(r.prevSnap, st.A)
					r.logf("p%d restarted and loaded only its snapshot: %v", st.A, err)
				} else {
					lctx, lcancel := context.WithTimeout(bg, 30*time.Second)
					err := s.LoadFromSnapshot(lctx)
					lcancel()
					r.SnapLoads++
					r.logf("snapshot loaded into the live store of p%d: %v", st.A, err)
				}
				r.settle()
			}
		case "fd":
			// a delivery during which one remote block fetch of the receiver fails (the message stays in the
			// pool and is delivered again later, so that the abandoned entries are asked for again)
			if m := r.pickMsg(st.R); m != nil && m.Kind == "pub" {
				target := r.Peers[m.To]
				failed := false
				victim := ""
				var gmu sync.Mutex
				grng := rand.New(rand.NewSource(int64(st.R * 1e9)))
				w.SetGate(func(ctx context.Context, to, from *sim.Peer, c cid.Cid) error {
					if to != target {
						return nil
					}
					gmu.Lock()
					defer gmu.Unlock()
					// one block stays unfetchable for the whole delivery (the fetcher's look-ahead and the
					// replicator's own fetch of it both fail), so the entry is really abandoned
					if victim == "" && grng.Intn(2) == 0 {
						victim = c.String()
					}
					if victim == c.String() {
						failed = true
						return fmt.Errorf("sim: injected fetch failure")
					}
					return nil
				})
				w.Deliver(m)
				r.logf("faulty deliver %s %d->%d", m.Kind, m.From, m.To)
				r.settle()
				w.SetGate(nil)
				if failed {
					r.FaultyFetches++
				}
			}
		case "burst":
			// several deliveries without waiting in between
			for k := 0; k < st.N; k++ {
				if m := r.pickMsg(r.Rng.Float64()); m != nil {
					w.Take(m.ID)
					w.Deliver(m)
				}
			}
			r.settle()
		case "da":
			w.DeliverAll()
			r.settle()
		case "drop":
			if m := r.pickMsg(st.R); m != nil {
				w.Take(m.ID)
				r.Lost++
				r.logf("drop %s %d->%d", m.Kind, m.From, m.To)
			}
		case "dup":
			if m := r.pickMsg(st.R); m != nil {
				w.Deliver(m) // stays in the pool: delivered again later
				r.logf("dup %s %d->%d", m.Kind, m.From, m.To)
				r.settle()
			}
		case "cut":
			w.Cut(r.Peers[st.A], r.Peers[st.B])
			r.Cuts++
			r.logf("cut %d-%d", st.A, st.B)
			r.settle()
		case "heal":
			w.Heal(r.Peers[st.A], r.Peers[st.B])
			r.logf("heal %d-%d", st.A, st.B)
			r.settle()
		case "restart":
			if r.Cfg.OnDisk {
				r.logf("restart %d", st.A)
				if err := r.Restart(st.A); err != nil {
					r.fail("restart-failed", err.Error())
				}
				r.settle()
			}
		case "sync":
			src, dst := r.store(st.A), r.store(st.B)
			if src != nil && dst != nil && r.Peers[st.A].Running() && r.Peers[st.B].Running() && w.Linked(r.Peers[st.A], r.Peers[st.B]) {
				heads := cloneHeads(headsOf(src))
				r.logf("sync %d<-%d (%d heads)", st.B, st.A, len(heads))
				ctx, cancel := context.WithTimeout(bg, 30*time.Second)
				_ = dst.Sync(ctx, heads)
				r.settle()
				cancel()
			}
		case "check":
			r.Checkpoint(fmt.Sprintf("step%d", si))
		}
	}
}

func cloneHeads(hs []ipfslog.Entry) []ipfslog.Entry {
	out := make([]ipfslog.Entry, len(hs))
	for i, h := range hs {
		out[i] = h.Copy()
	}
	return out
}

// Checkpoint waits for rest, snapshots every running replica and runs the
// registered oracles.
func (r *Runner) Checkpoint(label string) []*Snap {
	if !r.settle() {
		return nil
	}
	var snaps []*Snap
	for i, p := range r.Peers {
		if !p.Running() || r.store(i) == nil {
			continue
		}
		sn := TakeSnap(r.Cfg.Type, r.store(i), i)
		snaps = append(snaps, sn)
		r.mu.Lock()
		for h, e := range sn.Entries {
			if _, ok := r.Universe[h]; !ok {
				r.Universe[h] = e
			}
		}
		r.mu.Unlock()
	}
	r.Checkpoints++
	for _, chk := range r.Checks {
		if v := chk(r, snaps, label); v != nil {
			r.fail(v.Key, fmt.Sprintf("[%s] %s", label, v.What))
			break
		}
	}
	for _, sn := range snaps {
		r.prevSnap[sn.Peer] = sn
	}
	return snaps
}

// Converge heals every link, bounces it (so both sides see a join), delivers
// everything and waits; it returns true if rest was reached.
func (r *Runner) Converge() bool {
	w := r.E.W
	for i := range r.Peers {
		for j := i + 1; j < len(r.Peers); j++ {
			w.Heal(r.Peers[i], r.Peers[j])
		}
	}
	if !w.Flush() {
		r.watchdog = true
		return false
	}
	for i := range r.Peers {
		for j := i + 1; j < len(r.Peers); j++ {
			w.Cut(r.Peers[i], r.Peers[j])
			w.Heal(r.Peers[i], r.Peers[j])
		}
	}
	if !w.Flush() {
		r.watchdog = true
		return false
	}
	return true
}

func (r *Runner) scriptSig(steps []Step) string {
	var sb strings.Builder
	sb.WriteString(r.Cfg.Type)
	for _, s := range steps {
		sb.WriteString(s.String())
		sb.WriteByte(';')
	}
	return fw.HashSig(sb.String())
}

func stepStrings(steps []Step) []string {
	out := make([]string, len(steps))
	for i, s := range steps {
		out[i] = s.String()
	}
	return out
}

// ---------------- oracles shared by several properties ----------------

// oracleSameSet: replicas whose entry sets are equal must show equal order,
// heads and view (C01 clause 1).
func oracleSameSet(r *Runner, snaps []*Snap, label string) *Violation {
	groups := map[string][]*Snap{}
	for _, s := range snaps {
		groups[s.SetKey()] = append(groups[s.SetKey()], s)
	}
	for _, g := range groups {
		if len(g) < 2 || len(g[0].Order) == 0 {
			continue
		}
		r.Compared += len(g) - 1
		r.V.Count("same_set_comparisons", int64(len(g)-1))
		a := g[0]
		for _, b := range g[1:] {
			if !eqStrings(a.Order, b.Order) {
				return &Violation{"same-set-different-order", fmt.Sprintf("p%d and p%d hold the same %d entries but list them differently: %s vs %s", a.Peer, b.Peer, len(a.Order), shorts(a.Order), shorts(b.Order))}
			}
			if !eqStrings(a.Heads, b.Heads) {
				return &Violation{"same-set-different-heads", fmt.Sprintf("p%d and p%d hold the same entries but heads differ: %s vs %s", a.Peer, b.Peer, shorts(a.Heads), shorts(b.Heads))}
			}
			if a.View != b.View {
				return &Violation{"same-set-different-view", fmt.Sprintf("p%d and p%d hold the same %d entries but show different state:\n%s\n--- vs ---\n%s", a.Peer, b.Peer, len(a.Order), a.View, b.View)}
			}
		}
	}
	return nil
}

// oracleModel: per replica, order = reference order of its set, heads = model
// heads, view = replay of its own order; order extends happens-before.
func oracleModel(r *Runner, snaps []*Snap, label string) *Violation {
	for _, s := range snaps {
		if v := checkSnapAgainstModel(r.Cfg.Type, r.Universe, s, &r.V); v != nil {
			return v
		}
	}
	return nil
}

func checkSnapAgainstModel(typ string, universe map[string]*EntryInfo, s *Snap, v *fw.Verdict) *Violation {
	ents := s.Entries
	// view = replay of the replica's own listing
	mv := ModelView(typ, ents, s.Order)
	v.Count("view_vs_replay_checks", 1)
	if mv != s.View {
		return &Violation{"view-differs-from-replay", fmt.Sprintf("p%d view is not the last-writer-wins replay of its own log (%d entries):\nshown:\n%s\nreplay:\n%s", s.Peer, len(s.Order), s.View, mv)}
	}
	// happens-before
	pos := map[string]int{}
	for i, h := range s.Order {
		pos[h] = i
	}
	for _, h := range s.Order {
		e := ents[h]
		for _, n := range append(append([]string{}, e.Next...), e.Refs...) {
			if p, ok := pos[n]; ok && p > pos[h] {
				return &Violation{"order-violates-happens-before", fmt.Sprintf("p%d lists %s before its ancestor %s", s.Peer, short(h), short(n))}
			}
		}
	}
	v.Count("hb_checks", int64(len(s.Order)))
	closed, _ := ClosedUnderNext(ents, s.Order)
	if closed && !ClockCollision(ents, s.Order) {
		mo := ModelOrder(ents, s.Order)
		v.Count("order_vs_model_checks", 1)
		if !eqStrings(mo, s.Order) {
			return &Violation{"order-differs-from-lww-model", fmt.Sprintf("p%d order %s != (time,id) order %s", s.Peer, shorts(s.Order), shorts(mo))}
		}
		mh := ModelHeads(ents, s.Order)
		if !eqStrings(mh, s.Heads) {
			return &Violation{"heads-differ-from-model", fmt.Sprintf("p%d heads %s != model heads %s", s.Peer, shorts(s.Heads), shorts(mh))}
		}
	}
	return nil
}

// oracleAppendOnly (C08 a): the earlier listing of a replica is a
// subsequence of the later one.
func oracleAppendOnly(r *Runner, snaps []*Snap, label string) *Violation {
	for _, s := range snaps {
		if prev := r.prevSnap[s.Peer]; prev != nil {
			r.V.Count("append_only_checks", 1)
			if !IsSubsequence(prev.Order, s.Order) {
				return &Violation{"listing-not-stable", fmt.Sprintf("p%d earlier listing %s is not a subsequence of the later %s", s.Peer, shorts(prev.Order), shorts(s.Order))}
			}
		}
	}
	return nil
}

// oracleWriterOrder (C08 b): every entry follows everything its writer had
// seen when writing it; each writer's own entries appear in write order.
func oracleWriterOrder(r *Runner, snaps []*Snap, label string) *Violation {
	for _, s := range snaps {
		pos := map[string]int{}
		for i, h := range s.Order {
			pos[h] = i
		}
		for _, h := range s.Order {
			seen := r.SeenAtWrite[h]
			for x := range seen {
				if p, ok := pos[x]; ok && p > pos[h] {
					return &Violation{"entry-before-what-writer-had-seen", fmt.Sprintf("p%d lists %s before %s, which its writer had already seen", s.Peer, short(h), short(x))}
				}
			}
			r.V.Count("writer_seen_checks", int64(len(seen)))
		}
		// own entries in write order
		last := map[int]int{}
		for _, h := range r.Acked {
			if p, ok := pos[h]; ok {
				w := r.WriterOf[h]
				if lp, ok2 := last[w]; ok2 && p < lp {
					return &Violation{"writer-order-broken", fmt.Sprintf("p%d lists writer %d's entries out of write order", s.Peer, w)}
				}
				last[w] = p
			}
		}
	}
	return nil
}

func sortedKeys(m map[string]bool) []string {
	out := make([]string, 0, len(m))
	for k := range m {
		out = append(out, k)
	}
	sort.Strings(out)
	return out
}
