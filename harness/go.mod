module verifharness

go 1.22

require (
	berty.tech/go-ipfs-log v1.10.3-0.20240719141234-29e2d26e2aeb
	berty.tech/go-orbit-db v0.0.0
	github.com/anishathalye/porcupine v1.3.0
	github.com/ipfs/boxo v0.20.0
	github.com/ipfs/go-block-format v0.2.0
	github.com/ipfs/go-cid v0.4.1
	github.com/ipfs/go-datastore v0.6.0
	github.com/ipfs/go-ds-leveldb v0.5.0
	github.com/ipfs/go-ipld-cbor v0.1.0
	github.com/ipfs/go-ipld-format v0.6.0
	github.com/ipfs/kubo v0.29.0
	github.com/libp2p/go-libp2p v0.34.1
	github.com/libp2p/go-libp2p-pubsub v0.11.0
	github.com/multiformats/go-multibase v0.2.0
	github.com/multiformats/go-multihash v0.2.3
	go.uber.org/zap v1.27.0
)

require (
	bazil.org/fuse v0.0.0-20200117225306-7b5117fecadc // indirect
	github.com/Jorropo/jsync v1.0.1 // indirect
	github.com/alecthomas/units v0.0.0-20231202071711-9a357b53e9c9 // indirect
	github.com/benbjohnson/clock v1.3.5 // indirect
	github.com/beorn7/perks v1.0.1 // indirect
	github.com/blang/semver/v4 v4.0.0 // indirect
	github.com/btcsuite/btcd v0.22.1 // indirect
	github.com/cenkalti/backoff/v4 v4.3.0 // indirect
	github.com/cespare/xxhash/v2 v2.3.0 // indirect
	github.com/containerd/cgroups v1.1.0 // indirect
	github.com/coreos/go-systemd/v22 v22.5.0 // indirect
	github.com/crackcomm/go-gitignore v0.0.0-20231225121904-e25f5bc08668 // indirect
	github.com/cskr/pubsub v1.0.2 // indirect
	github.com/davecgh/go-spew v1.1.1 // indirect
	github.com/davidlazar/go-crypto v0.0.0-20200604182044-b73af7476f6c // indirect
	github.com/decred/dcrd/dcrec/secp256k1/v4 v4.3.0 // indirect
	github.com/docker/go-units v0.5.0 // indirect
	github.com/dustin/go-humanize v1.0.1 // indirect
	github.com/elastic/gosigar v0.14.2 // indirect
	github.com/facebookgo/atomicfile v0.0.0-20151019160806-2de1f203e7d5 // indirect
	github.com/felixge/httpsnoop v1.0.4 // indirect
	github.com/flynn/noise v1.1.0 // indirect
	github.com/francoispqt/gojay v1.2.13 // indirect
	github.com/gabriel-vasile/mimetype v1.4.3 // indirect
	github.com/go-logr/logr v1.4.1 // indirect
	github.com/go-logr/stdr v1.2.2 // indirect
	github.com/godbus/dbus/v5 v5.1.0 // indirect
	github.com/gogo/protobuf v1.3.2 // indirect
	github.com/golang/snappy v0.0.4 // indirect
	github.com/google/gopacket v1.1.19 // indirect
	github.com/google/uuid v1.6.0 // indirect
	github.com/gorilla/websocket v1.5.1 // indirect
	github.com/grpc-ecosystem/grpc-gateway/v2 v2.20.0 // indirect
	github.com/hashicorp/errwrap v1.1.0 // indirect
	github.com/hashicorp/go-multierror v1.1.1 // indirect
	github.com/hashicorp/golang-lru v1.0.2 // indirect
	github.com/hashicorp/golang-lru/v2 v2.0.7 // indirect
	github.com/huin/goupnp v1.3.0 // indirect
	github.com/ipfs/bbloom v0.0.4 // indirect
	github.com/ipfs/go-bitfield v1.1.0 // indirect
	github.com/ipfs/go-blockservice v0.5.2 // indirect
	github.com/ipfs/go-cidutil v0.1.0 // indirect
	github.com/ipfs/go-ds-measure v0.2.0 // indirect
	github.com/ipfs/go-fs-lock v0.0.7 // indirect
	github.com/ipfs/go-ipfs-blockstore v1.3.1 // indirect
	github.com/ipfs/go-ipfs-delay v0.0.1 // indirect
	github.com/ipfs/go-ipfs-ds-help v1.1.1 // indirect
	github.com/ipfs/go-ipfs-exchange-interface v0.2.1 // indirect
	github.com/ipfs/go-ipfs-pq v0.0.3 // indirect
	github.com/ipfs/go-ipfs-redirects-file v0.1.1 // indirect
	github.com/ipfs/go-ipfs-util v0.0.3 // indirect
	github.com/ipfs/go-ipld-legacy v0.2.1 // indirect
	github.com/ipfs/go-libipfs v0.6.2 // indirect
	github.com/ipfs/go-log v1.0.5 // indirect
	github.com/ipfs/go-log/v2 v2.5.1 // indirect
	github.com/ipfs/go-merkledag v0.11.0 // indirect
	github.com/ipfs/go-metrics-interface v0.0.1 // indirect
	github.com/ipfs/go-peertaskqueue v0.8.1 // indirect
	github.com/ipfs/go-unixfsnode v1.9.0 // indirect
	github.com/ipfs/go-verifcid v0.0.3 // indirect
	github.com/ipld/go-car v0.6.2 // indirect
	github.com/ipld/go-car/v2 v2.13.1 // indirect
	github.com/ipld/go-codec-dagpb v1.6.0 // indirect
	github.com/ipld/go-ipld-prime v0.21.0 // indirect
	github.com/jackpal/go-nat-pmp v1.0.2 // indirect
	github.com/jbenet/go-temp-err-catcher v0.1.0 // indirect
	github.com/jbenet/goprocess v0.1.4 // indirect
	github.com/klauspost/compress v1.17.8 // indirect
	github.com/klauspost/cpuid/v2 v2.2.7 // indirect
	github.com/koron/go-ssdp v0.0.4 // indirect
	github.com/libp2p/go-buffer-pool v0.1.0 // indirect
	github.com/libp2p/go-cidranger v1.1.0 // indirect
	github.com/libp2p/go-doh-resolver v0.4.0 // indirect
	github.com/libp2p/go-flow-metrics v0.1.0 // indirect
	github.com/libp2p/go-libp2p-asn-util v0.4.1 // indirect
	github.com/libp2p/go-libp2p-kad-dht v0.25.2 // indirect
	github.com/libp2p/go-libp2p-kbucket v0.6.3 // indirect
	github.com/libp2p/go-libp2p-pubsub-router v0.6.0 // indirect
	github.com/libp2p/go-libp2p-record v0.2.0 // indirect
	github.com/libp2p/go-libp2p-routing-helpers v0.7.3 // indirect
	github.com/libp2p/go-libp2p-xor v0.1.0 // indirect
	github.com/libp2p/go-msgio v0.3.0 // indirect
	github.com/libp2p/go-nat v0.2.0 // indirect
	github.com/libp2p/go-netroute v0.2.1 // indirect
	github.com/libp2p/go-reuseport v0.4.0 // indirect
	github.com/libp2p/go-yamux/v4 v4.0.1 // indirect
	github.com/libp2p/zeroconf/v2 v2.2.0 // indirect
	github.com/marten-seemann/tcp v0.0.0-20210406111302-dfbc87cc63fd // indirect
	github.com/mattn/go-isatty v0.0.20 // indirect
	github.com/miekg/dns v1.1.59 // indirect
	github.com/mikioh/tcpinfo v0.0.0-20190314235526-30a79bb1804b // indirect
	github.com/mikioh/tcpopt v0.0.0-20190314235656-172688c1accc // indirect
	github.com/minio/sha256-simd v1.0.1 // indirect
	github.com/mitchellh/go-homedir v1.1.0 // indirect
	github.com/mr-tron/base58 v1.2.0 // indirect
	github.com/multiformats/go-base32 v0.1.0 // indirect
	github.com/multiformats/go-base36 v0.2.0 // indirect
	github.com/multiformats/go-multiaddr v0.12.4 // indirect
	github.com/multiformats/go-multiaddr-dns v0.3.1 // indirect
	github.com/multiformats/go-multiaddr-fmt v0.1.0 // indirect
	github.com/multiformats/go-multicodec v0.9.0 // indirect
	github.com/multiformats/go-multistream v0.5.0 // indirect
	github.com/multiformats/go-varint v0.0.7 // indirect
	github.com/opencontainers/runtime-spec v1.2.0 // indirect
	github.com/opentracing/opentracing-go v1.2.0 // indirect
	github.com/openzipkin/zipkin-go v0.4.3 // indirect
	github.com/pbnjay/memory v0.0.0-20210728143218-7b4eea64cf58 // indirect
	github.com/petar/GoLLRB v0.0.0-20210522233825-ae3b015fd3e9 // indirect
	github.com/pion/datachannel v1.5.6 // indirect
	github.com/pion/dtls/v2 v2.2.11 // indirect
	github.com/pion/ice/v2 v2.3.24 // indirect
	github.com/pion/interceptor v0.1.29 // indirect
	github.com/pion/logging v0.2.2 // indirect
	github.com/pion/mdns v0.0.12 // indirect
	github.com/pion/randutil v0.1.0 // indirect
	github.com/pion/rtcp v1.2.14 // indirect
	github.com/pion/rtp v1.8.6 // indirect
	github.com/pion/sctp v1.8.16 // indirect
	github.com/pion/sdp/v3 v3.0.9 // indirect
	github.com/pion/srtp/v2 v2.0.18 // indirect
	github.com/pion/stun v0.6.1 // indirect
	github.com/pion/transport/v2 v2.2.5 // indirect
	github.com/pion/turn/v2 v2.1.6 // indirect
	github.com/pion/webrtc/v3 v3.2.40 // indirect
	github.com/pkg/errors v0.9.1 // indirect
	github.com/pmezard/go-difflib v1.0.0 // indirect
	github.com/polydawn/refmt v0.89.0 // indirect
	github.com/prometheus/client_golang v1.19.1 // indirect
	github.com/prometheus/client_model v0.6.1 // indirect
	github.com/prometheus/common v0.53.0 // indirect
	github.com/prometheus/procfs v0.15.0 // indirect
	github.com/quic-go/qpack v0.4.0 // indirect
	github.com/quic-go/quic-go v0.44.0 // indirect
	github.com/quic-go/webtransport-go v0.8.0 // indirect
	github.com/raulk/go-watchdog v1.3.0 // indirect
	github.com/samber/lo v1.39.0 // indirect
	github.com/spaolacci/murmur3 v1.1.0 // indirect
	github.com/stretchr/testify v1.9.0 // indirect
	github.com/syndtr/goleveldb v1.0.1-0.20210819022825-2ae1ddf74ef7 // indirect
	github.com/ucarion/urlpath v0.0.0-20200424170820-7ccc79b76bbb // indirect
	github.com/whyrusleeping/base32 v0.0.0-20170828182744-c30ac30633cc // indirect
	github.com/whyrusleeping/cbor v0.0.0-20171005072247-63513f603b11 // indirect
	github.com/whyrusleeping/cbor-gen v0.1.1 // indirect
	github.com/whyrusleeping/chunker v0.0.0-20181014151217-fe64bd25879f // indirect
	github.com/whyrusleeping/go-keyspace v0.0.0-20160322163242-5b898ac5add1 // indirect
	github.com/whyrusleeping/multiaddr-filter v0.0.0-20160516205228-e903e4adabd7 // indirect
	go.opencensus.io v0.24.0 // indirect
	go.opentelemetry.io/contrib/instrumentation/net/http/otelhttp v0.51.0 // indirect
	go.opentelemetry.io/otel v1.26.0 // indirect
	go.opentelemetry.io/otel/exporters/otlp/otlptrace v1.26.0 // indirect
	go.opentelemetry.io/otel/exporters/otlp/otlptrace/otlptracegrpc v1.26.0 // indirect
	go.opentelemetry.io/otel/exporters/otlp/otlptrace/otlptracehttp v1.26.0 // indirect
	go.opentelemetry.io/otel/exporters/stdout/stdouttrace v1.26.0 // indirect
	go.opentelemetry.io/otel/exporters/zipkin v1.26.0 // indirect
	go.opentelemetry.io/otel/metric v1.26.0 // indirect
	go.opentelemetry.io/otel/sdk v1.26.0 // indirect
	go.opentelemetry.io/otel/trace v1.26.0 // indirect
	go.opentelemetry.io/proto/otlp v1.2.0 // indirect
	go.uber.org/atomic v1.11.0 // indirect
	go.uber.org/dig v1.17.1 // indirect
	go.uber.org/fx v1.21.1 // indirect
	go.uber.org/multierr v1.11.0 // indirect
	go4.org v0.0.0-20230225012048-214862532bf5 // indirect
	golang.org/x/crypto v0.31.0 // indirect
	golang.org/x/exp v0.0.0-20240506185415-9bf2ced13842 // indirect
	golang.org/x/net v0.26.0 // indirect
	golang.org/x/sync v0.10.0 // indirect
	golang.org/x/sys v0.28.0 // indirect
	golang.org/x/text v0.21.0 // indirect
	golang.org/x/xerrors v0.0.0-20231012003039-104605ab7028 // indirect
	gonum.org/v1/gonum v0.15.0 // indirect
	google.golang.org/genproto/googleapis/api v0.0.0-20240515191416-fc5f0ca64291 // indirect
	google.golang.org/genproto/googleapis/rpc v0.0.0-20240515191416-fc5f0ca64291 // indirect
	google.golang.org/grpc v1.64.1 // indirect
	google.golang.org/protobuf v1.34.1 // indirect
	gopkg.in/yaml.v3 v3.0.1 // indirect
	lukechampine.com/blake3 v1.3.0 // indirect
)

replace berty.tech/go-orbit-db => /repo
