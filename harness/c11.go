package main

import (
	"context"
	"errors"
	"fmt"
	"math/rand"
	"os"
	"sort"
	"strings"
	"sync"
	"time"

	ipfslog "berty.tech/go-ipfs-log"
	cid "github.com/ipfs/go-cid"

	"verifharness/fw"
	"verifharness/sim"
)

func init() {
	fw.Register(&fw.Property{
		ID:    "C11",
		Level: "fault_enumeration",
		Rule: "ENUMERATED single cancellation points x ordinal: a writer log of 6-80 entries (long ones exceed the 32 fetch slots) is requested by a replica through Sync; the request's context is cancelled at a chosen point: {already cancelled, repl.before-slot (k-th arrival, also while all slots are held by blocked fetches), repl.after-slot (slot held, replicator lock not yet taken), repl.after-dequeue, repl.before-fetch, mid-fetch (remote block fetch held by the gate, then cancel), repl.after-fetch, repl.before-done, merge.after-join, deadline expiry, injected fetch error at the k-th remote fetch}; 1-3 aborted requests in sequence or overlapping (pairs sampled), and sequences of 40 aborted requests at one point (more than the 32 fetch slots), then a final uncancelled request for the same or newer heads. LOAD requests: a persisted log of 6-80 entries (one head, or a local and a replicated head) is reopened with an entry codec (CreateDBOptions.IO) that, at the k-th entry read of the request, cancels it / fails that read / fails that block for the rest of the request, or the request carries a 50-450 us deadline; 1-3 aborted Load(-1) calls, optionally newer entries persisted through a sibling handle, then a final uncancelled Load(-1) whose entry reads take 0.8-2.3 ms each in three cases of four; every entry has a key of its own, and the log length and the view are read at the moment the final Load returns. " +
			"distinct = (log length, point, ordinal, number and overlap of aborted requests, newer-heads flag, store type); non-trivial = the cancellation point was actually reached with the request still running (arrivals observed) and at least one entry was still missing when the final request started",
		Assumptions: []string{"cancellation granularity is the hook points plus the block fetch", "the final request's blocks are fetchable (links up, no fault)"},
		Cases:       c11Cases,
		Run:         c11Run,
		MinDistinct: map[string]int{"quick": 25, "thorough": 150},
		Batch:       8,
		CaseTimeout: 180 * time.Second,
		Explain:     "oracle: after the final uncancelled Sync and rest, the replica holds the full closure (over next) of the final heads; negative verdict only at confirmed rest. Load family: after the final Load the log holds every persisted entry and shows the pre-restart state.",
	})
}

var c11Points = []string{"pre-cancelled", "repl.before-slot", "repl.before-slot/slots-full", "repl.after-slot", "repl.after-dequeue", "repl.before-fetch", "mid-fetch", "repl.after-fetch", "repl.before-done", "merge.after-join", "deadline", "fetch-error"}

func c11Cases(tier string, seed int64) []fw.Case {
	var out []fw.Case
	rng := rand.New(rand.NewSource(seed*179424673 + 11))
	idx := 0
	add := func(p map[string]interface{}) {
		out = append(out, fw.Case{Idx: idx, Seed: rng.Int63(), P: p})
		idx++
	}
	lens := []int{6, 40}
	ords := []int{1, 3}
	if tier == "thorough" {
		lens = []int{6, 17, 40, 80}
		ords = []int{1, 2, 3, 7, 20}
	}
	for _, pt := range c11Points {
		for _, n := range lens {
			if pt == "repl.before-slot/slots-full" && n < 40 {
				continue
			}
			for _, k := range ords {
				if k > n {
					continue
				}
				if (pt == "pre-cancelled" || pt == "deadline") && k != ords[0] {
					continue
				}
				add(map[string]interface{}{"point": pt, "len": n, "k": k, "aborts": 1, "newer": idx%2 == 0, "type": storeTypes[idx%3]})
			}
		}
	}
	// long sequences of aborted requests (a resource leaked per aborted item only shows after many of them)
	many := []string{"mid-fetch", "fetch-error", "repl.after-fetch", "repl.before-slot", "repl.after-slot"}
	if tier == "thorough" {
		many = append(many, "repl.after-dequeue", "repl.before-fetch", "repl.before-done", "deadline", "pre-cancelled")
	}
	for _, pt := range many {
		add(map[string]interface{}{"point": pt, "point2": pt, "len": 6, "k": 1, "aborts": 40, "newer": true, "type": storeTypes[idx%3]})
	}
	// sampled pairs / triples, sequential and overlapping
	extra := 12
	if tier == "thorough" {
		extra = 150
	}
	for i := 0; i < extra; i++ {
		pt := c11Points[rng.Intn(len(c11Points))]
		n := lens[rng.Intn(len(lens))]
		if pt == "repl.before-slot/slots-full" && n < 40 {
			n = 40
		}
		add(map[string]interface{}{"point": pt, "len": n, "k": 1 + rng.Intn(minInt(n, 10)), "aborts": 2 + rng.Intn(2), "overlap": rng.Intn(2) == 0, "point2": c11Points[rng.Intn(len(c11Points))], "newer": rng.Intn(2) == 0, "type": storeTypes[idx%3]})
	}
	// load requests (Store.Load from the local cache) aborted part-way
	out = append(out, c11LoadCases(tier, rng, &idx)...)
	return out
}

type reqKeyT struct{}

// c11Ctl cancels requests at schedule points.
type c11Ctl struct {
	mu       sync.Mutex
	cancels  map[int]context.CancelFunc
	plans    map[int]*c11Plan
	arrivals map[string]int
	reached  int
	current  int
	items    map[string]bool // hashes the replicator is fetching as queue items (not the fetcher's look-ahead)
	held     []chan struct{} // held fetches
	holdAll  bool
	fetchN   int
	target   *sim.Peer
}

type c11Plan struct {
	point   string
	k       int
	seen    int
	done    bool
	failCid string // fetch-error: this block stays unfetchable for the rest of the request
}

func (ctl *c11Ctl) reqOf(args []interface{}) int {
	for _, a := range args {
		if c, ok := a.(context.Context); ok {
			if id, ok := c.Value(reqKeyT{}).(int); ok {
				return id
			}
		}
	}
	return -1
}

func (ctl *c11Ctl) point(name string, args []interface{}) {
	if os.Getenv("VERIF_VERBOSE") != "" {
		h := ""
		for _, a := range args {
			if c, ok := a.(cid.Cid); ok {
				h = short(c.String())
			}
			if e, ok := a.(error); ok && e != nil {
				h += " err=" + e.Error()
			}
		}
		fmt.Fprintf(os.Stderr, "point %s %s (request %d)\n", name, h, ctl.reqOf(args))
	}
	ctl.mu.Lock()
	ctl.arrivals[name]++
	if name == "repl.before-fetch" {
		for _, a := range args {
			if c, ok := a.(cid.Cid); ok {
				ctl.items[c.String()] = true
			}
		}
	}
	id := ctl.reqOf(args)
	if id < 0 {
		id = ctl.current
	}
	pl := ctl.plans[id]
	var cancel context.CancelFunc
	if pl != nil && !pl.done && strings.TrimSuffix(pl.point, "/slots-full") == name {
		pl.seen++
		if pl.seen >= pl.k {
			pl.done = true
			ctl.reached++
			cancel = ctl.cancels[id]
		}
	}
	ctl.mu.Unlock()
	if cancel != nil {
		cancel()
	}
}

func (ctl *c11Ctl) gate(ctx context.Context, to, from *sim.Peer, c cid.Cid) error {
	if to != ctl.target {
		return nil
	}
	ctl.mu.Lock()
	ctl.fetchN++
	id := -1
	if v, ok := ctx.Value(reqKeyT{}).(int); ok {
		id = v
	}
	pl := ctl.plans[id]
	var cancel context.CancelFunc
	var fail bool
	var hold chan struct{}
	if pl != nil && pl.failCid == c.String() {
		fail = true
	}
	if pl != nil && !pl.done && ctl.items[c.String()] {
		// only the fetch of a queue item's own block counts: the fetcher's look-ahead
		// fetches fail silently and do not abort anything
		switch pl.point {
		case "mid-fetch":
			pl.seen++
			if pl.seen >= pl.k {
				pl.done = true
				ctl.reached++
				cancel = ctl.cancels[id]
				hold = make(chan struct{})
				ctl.held = append(ctl.held, hold)
			}
		case "fetch-error":
			pl.seen++
			if pl.seen >= pl.k {
				pl.done = true
				ctl.reached++
				fail = true
				pl.failCid = c.String()
			}
		}
	}
	if hold == nil && ctl.holdAll && id >= 0 {
		hold = make(chan struct{})
		ctl.held = append(ctl.held, hold)
	}
	ctl.mu.Unlock()
	if fail {
		if os.Getenv("VERIF_VERBOSE") != "" {
			fmt.Fprintf(os.Stderr, "gate: injected failure for %s (request %d)\n", short(c.String()), id)
		}
		return errors.New("sim: injected fetch failure")
	}
	if cancel != nil {
		go func() { time.Sleep(200 * time.Microsecond); cancel() }()
	}
	if hold != nil {
		select {
		case <-hold:
		case <-ctx.Done():
			return ctx.Err()
		}
	}
	return nil
}

func (ctl *c11Ctl) releaseAll() {
	ctl.mu.Lock()
	ctl.holdAll = false
	for _, h := range ctl.held {
		close(h)
	}
	ctl.held = nil
	ctl.mu.Unlock()
}

func c11Run(c fw.Case) fw.Verdict {
	if c.Kind == "load" {
		return c11LoadRun(c)
	}
	e := NewEnv()
	defer e.Close()
	v := fw.Verdict{}
	rng := rand.New(rand.NewSource(c.Seed))
	typ, n := c.Str("type", tEvent), c.Int("len", 6)
	W, err := e.W.AddPeer(sim.PeerOpts{})
	if err != nil {
		return fw.Verdict{Status: fw.Inconclusive, What: err.Error()}
	}
	R, err := e.W.AddPeer(sim.PeerOpts{})
	if err != nil {
		return fw.Verdict{Status: fw.Inconclusive, What: err.Error()}
	}
	db, err := e.CreateDB("c11", typ, W, []*sim.Peer{R}, idsOf(W))
	if err != nil {
		return fw.Verdict{Status: fw.Inconclusive, What: "create: " + err.Error()}
	}
	sW, sR := db.Stores[W.Idx], db.Stores[R.Idx]
	e.W.Flush()
	for i := 0; i < n; i++ {
		if _, err := ApplyOp(bg, sW, honestOp(typ, i)); err != nil {
			return fw.Verdict{Status: fw.Inconclusive, What: err.Error()}
		}
	}
	e.W.Settle()
	e.W.DropAll() // R learns heads only through the requests below

	ctl := &c11Ctl{cancels: map[int]context.CancelFunc{}, plans: map[int]*c11Plan{}, arrivals: map[string]int{}, items: map[string]bool{}, target: R}
	for _, p := range []string{"repl.before-slot", "repl.after-slot", "repl.after-dequeue", "repl.before-fetch", "repl.after-fetch", "repl.before-done", "merge.after-join"} {
		e.H.SetPoint(p, ctl.point)
	}
	e.W.SetGate(ctl.gate)

	aborts := c.Int("aborts", 1)
	points := []string{c.Str("point", "pre-cancelled")}
	for i := 1; i < aborts; i++ {
		points = append(points, c.Str("point2", points[0]))
	}
	overlap := c.Bool("overlap")
	heads := func() []ipfslog.Entry { return cloneHeads(headsOf(sW)) }
	var wg sync.WaitGroup
	for i, pt := range points {
		id := i + 1
		ctx, cancel := context.WithCancel(context.WithValue(bg, reqKeyT{}, id))
		ctl.mu.Lock()
		ctl.cancels[id] = cancel
		ctl.plans[id] = &c11Plan{point: pt, k: c.Int("k", 1)}
		ctl.current = id
		if pt == "repl.before-slot/slots-full" {
			ctl.holdAll = true
		}
		ctl.mu.Unlock()
		switch pt {
		case "pre-cancelled":
			cancel()
			ctl.mu.Lock()
			ctl.reached++
			ctl.plans[id].done = true
			ctl.mu.Unlock()
		case "deadline":
			var c2 context.CancelFunc
			ctx, c2 = context.WithTimeout(ctx, time.Duration(200+rng.Intn(1500))*time.Microsecond)
			defer c2()
			ctl.mu.Lock()
			ctl.reached++
			ctl.plans[id].done = true
			ctl.mu.Unlock()
		}
		_ = sR.Sync(ctx, heads())
		if pt == "repl.before-slot/slots-full" {
			// wait until the slots are taken by held fetches, then the plan cancels at the next before-slot arrival: trigger by cancelling directly
			deadline := time.Now().Add(5 * time.Second)
			for time.Now().Before(deadline) {
				ctl.mu.Lock()
				held := len(ctl.held)
				ctl.mu.Unlock()
				if held >= 32 || held >= n {
					break
				}
				time.Sleep(time.Millisecond)
			}
			ctl.mu.Lock()
			if !ctl.plans[id].done {
				ctl.plans[id].done = true
				ctl.reached++
			}
			ctl.mu.Unlock()
			cancel()
			time.Sleep(2 * time.Millisecond)
			ctl.releaseAll()
		}
		if !overlap {
			// the aborted request is over when no hooked work is pending; the replicator's own
			// bookkeeping is not consulted here (it is what a leak would corrupt)
			settled := e.W.WaitIdle(sim.IdleOpts{Watchdog: 5 * time.Second, IgnoreReplicators: true})
			ctl.releaseAll()
			cancel() // an aborted request that never reached its point ends here (then it is simply a completed request)
			if !settled {
				break // the replicator no longer comes to rest: go straight to the final request, which decides
			}
		} else {
			defer cancel()
		}
	}
	wg.Wait()
	if overlap {
		e.W.WaitIdle(sim.IdleOpts{Watchdog: 20 * time.Second})
		ctl.releaseAll()
		ctl.mu.Lock()
		for _, cf := range ctl.cancels {
			cf()
		}
		ctl.mu.Unlock()
		e.W.WaitIdle(sim.IdleOpts{Watchdog: 20 * time.Second})
	}
	// no more faults
	ctl.mu.Lock()
	ctl.plans = map[int]*c11Plan{}
	ctl.current = 0
	reached := ctl.reached
	arr := map[string]int{}
	for k, x := range ctl.arrivals {
		arr[k] = x
	}
	ctl.mu.Unlock()
	ctl.releaseAll()
	e.W.SetGate(nil)
	e.H.ClearPoints()

	missingBefore := n - sR.OpLog().Len()
	if c.Bool("newer") {
		for i := 0; i < 1+rng.Intn(3); i++ {
			if _, err := ApplyOp(bg, sW, honestOp(typ, 500+i)); err != nil {
				return fw.Verdict{Status: fw.Inconclusive, What: err.Error()}
			}
		}
		e.W.Settle()
		e.W.DropAll()
	}
	universe := map[string]*EntryInfo{}
	for _, en := range sW.OpLog().Values().Slice() {
		universe[en.GetHash().String()] = infoOf(en)
	}
	var hs []string
	for _, h := range headsOf(sW) {
		hs = append(hs, h.GetHash().String())
	}
	want := Closure(universe, hs)
	// the final, uncancelled request
	if err := sR.Sync(bg, heads()); err != nil {
		return fw.Verdict{Status: fw.Violated, Key: "final-sync-error", What: "final uncancelled Sync returned " + err.Error(), NonTrivial: true}
	}
	held := func() (bool, int) {
		miss := 0
		for _, h := range want {
			if !logHas(sR, mustCid(h)) {
				miss++
			}
		}
		return miss == 0, miss
	}
	ok, miss := false, 0
	deadline := time.Now().Add(30 * time.Second)
	for time.Now().Before(deadline) {
		idle := e.W.WaitIdle(sim.IdleOpts{Watchdog: 3 * time.Second})
		if ok, miss = held(); ok || idle {
			break
		}
	}
	for k, x := range arr {
		v.Count("arrivals_"+k, int64(x))
	}
	v.Count("cancellations_triggered", int64(reached))
	v.Count("entries_missing_before_final_request", int64(missingBefore))
	v.Sig = fw.HashSig(n, strings.Join(points, "+"), c.Int("k", 1), overlap, c.Bool("newer"), typ)
	pointsDesc := strings.Join(points, "+")
	if len(points) > 3 {
		pointsDesc = fmt.Sprintf("%s x%d", points[0], len(points))
	}
	v.NonTrivial = reached > 0 && missingBefore > 0
	if !ok {
		if !e.W.WaitIdle(sim.IdleOpts{Stable: confirmWindow(), Watchdog: 60 * time.Second}) {
			// not at rest: the replicator itself reports pending work forever => report what it is
			st := "?"
			if vs, ok2 := replState(sR); ok2 {
				st = vs
			}
			if ok, miss = held(); !ok {
				return fw.Verdict{Status: fw.Violated, Key: fmt.Sprintf("cancel-point=%s/outcome=never-at-rest", points[0]), NonTrivial: true, Sig: v.Sig, Counters: v.Counters,
					What: fmt.Sprintf("after %d aborted request(s) (%s, k=%d) the final uncancelled Sync never completes: %d of %d entries missing, replicator state %s, pending %v", aborts, pointsDesc, c.Int("k", 1), miss, len(want), st, e.H.Detail())}
			}
		}
		if ok, miss = held(); !ok {
			have := sR.OpLog().Len()
			outcome := "hole-below-head"
			if have == 0 || !logHas(sR, mustCid(hs[0])) {
				outcome = "skipped"
			}
			return fw.Verdict{Status: fw.Violated, Key: fmt.Sprintf("cancel-point=%s/outcome=%s", points[0], outcome), NonTrivial: true, Sig: v.Sig, Counters: v.Counters,
				What: fmt.Sprintf("after %d aborted request(s) (%s, k=%d) and a final uncancelled Sync, at rest the replica holds %d entries and misses %d of the %d reachable ones", aborts, pointsDesc, c.Int("k", 1), have, miss, len(want))}
		}
	}
	// view oracle on the result
	sn := TakeSnap(typ, sR, R.Idx)
	if vio := checkSnapAgainstModel(typ, universe, sn, &v); vio != nil {
		return fw.Verdict{Status: fw.Violated, Key: vio.Key, What: vio.What, NonTrivial: true, Sig: v.Sig}
	}
	v.Status = fw.Held
	keys := []string{}
	for k := range arr {
		keys = append(keys, fmt.Sprintf("%s=%d", k, arr[k]))
	}
	sort.Strings(keys)
	v.Sample = map[string]interface{}{"log_len": n, "points": points, "k": c.Int("k", 1), "overlap": overlap, "newer_heads": c.Bool("newer"), "cancellations_triggered": reached, "missing_before_final": missingBefore, "arrivals": keys}
	return v
}
