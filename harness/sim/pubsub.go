package sim

import (
	"context"
	"sync"
	"time"

	"berty.tech/go-orbit-db/events"
	"berty.tech/go-orbit-db/iface"
	"github.com/libp2p/go-libp2p/core/peer"
)

// simPubSub implements iface.PubSubInterface for one peer.
type simPubSub struct{ p *Peer }

func (ps *simPubSub) TopicSubscribe(ctx context.Context, topic string) (iface.PubSubTopic, error) {
	s := &topicSub{
		p:       ps.p,
		w:       ps.p.W,
		topic:   topic,
		ctx:     ctx,
		peersCh: make(chan events.Event),
		msgCh:   make(chan *iface.EventPubSubMessage),
		wake:    make(chan struct{}, 1),
	}
	go s.forward()
	ps.p.W.subscribe(s)
	return s, nil
}

type subItem struct {
	peerEvt events.Event
	msg     *iface.EventPubSubMessage
}

// topicSub is one peer's subscription to one topic. Items are forwarded to
// the store's channels by a single goroutine, in FIFO order; each queued item
// is counted as pending work ("sim.deliver") until the store's loop has
// finished handling it.
type topicSub struct {
	p     *Peer
	w     *World
	topic string
	ctx   context.Context

	peersCh chan events.Event
	msgCh   chan *iface.EventPubSubMessage

	mu   sync.Mutex
	q    []subItem
	done bool
	wake chan struct{}
}

func (s *topicSub) push(it subItem) {
	s.mu.Lock()
	if s.done {
		s.mu.Unlock()
		return
	}
	s.w.H.Begin("sim.deliver")
	s.q = append(s.q, it)
	s.mu.Unlock()
	select {
	case s.wake <- struct{}{}:
	default:
	}
}

func (s *topicSub) pushPeerEvt(id peer.ID, join bool) {
	if join {
		s.push(subItem{peerEvt: &iface.EventPubSubJoin{Topic: s.topic, Peer: id}})
	} else {
		s.push(subItem{peerEvt: &iface.EventPubSubLeave{Topic: s.topic, Peer: id}})
	}
}

func (s *topicSub) pushMsg(data []byte) {
	s.push(subItem{msg: &iface.EventPubSubMessage{Content: append([]byte{}, data...)}})
}

func (s *topicSub) forward() {
	defer func() {
		s.w.unsubscribe(s)
		s.mu.Lock()
		s.done = true
		n := len(s.q)
		s.q = nil
		s.mu.Unlock()
		for i := 0; i < n; i++ {
			s.w.H.End("sim.deliver")
		}
		close(s.peersCh)
		close(s.msgCh)
	}()
	for {
		s.mu.Lock()
		var it subItem
		have := len(s.q) > 0
		if have {
			it = s.q[0]
		}
		s.mu.Unlock()
		if !have {
			select {
			case <-s.ctx.Done():
				return
			case <-s.wake:
				continue
			}
		}
		if it.msg != nil {
			select {
			case s.msgCh <- it.msg:
			case <-s.ctx.Done():
				return
			}
		} else {
			select {
			case s.peersCh <- it.peerEvt:
			case <-s.ctx.Done():
				return
			}
		}
		s.mu.Lock()
		s.q = s.q[1:]
		s.mu.Unlock()
	}
}

func (s *topicSub) Publish(ctx context.Context, message []byte) error {
	if err := ctx.Err(); err != nil {
		return err
	}
	s.w.publish(s.p, s.topic, message)
	return nil
}

func (s *topicSub) Peers(ctx context.Context) ([]peer.ID, error) {
	if d := s.w.PeersDelay; d != nil {
		time.Sleep(d())
	}
	return s.w.topicPeers(s), nil
}

func (s *topicSub) WatchPeers(ctx context.Context) (<-chan events.Event, error) {
	return s.peersCh, nil
}

func (s *topicSub) WatchMessages(ctx context.Context) (<-chan *iface.EventPubSubMessage, error) {
	return s.msgCh, nil
}

func (s *topicSub) Topic() string { return s.topic }

// ---- direct channel ----

type simDirect struct {
	p       *Peer
	emitter iface.DirectChannelEmitter
	mu      sync.Mutex
	closed  bool
}

func (d *simDirect) Connect(ctx context.Context, id peer.ID) error {
	if err := ctx.Err(); err != nil {
		return err
	}
	return d.p.W.connect(d.p, id)
}

func (d *simDirect) Send(ctx context.Context, id peer.ID, data []byte) error {
	if err := ctx.Err(); err != nil {
		return err
	}
	return d.p.W.send(d.p, id, data)
}

func (d *simDirect) Close() error {
	d.mu.Lock()
	d.closed = true
	d.mu.Unlock()
	d.p.clearDirect(d)
	return d.emitter.Close()
}

func (d *simDirect) emit(from peer.ID, data []byte) bool {
	d.mu.Lock()
	defer d.mu.Unlock()
	if d.closed {
		return false
	}
	return d.emitter.Emit(&iface.EventPubSubPayload{Payload: data, Peer: from}) == nil
}
