// Package sim is the simulated network in which real go-orbit-db instances
// run: links, pubsub topics, direct channels, block exchange and an in-flight
// message pool under the control of the test driver.
package sim

import (
	"context"
	"fmt"
	"os"
	"sort"
	"sync"
	"sync/atomic"
	"time"

	orbitdb "berty.tech/go-orbit-db"
	"berty.tech/go-orbit-db/iface"
	cid "github.com/ipfs/go-cid"
	"github.com/libp2p/go-libp2p/core/peer"

	"verifharness/hk"
)

// Msg is a message in flight (or recorded on the wire log).
type Msg struct {
	ID    int
	Kind  string // "pub" | "direct"
	From  int
	To    int
	Topic string // pub: topic; direct: ""
	Data  []byte
}

// Wire is one record of the wire log: every publish / direct send ever issued.
type Wire struct {
	Kind  string
	From  int
	To    int // -1 for publish
	Topic string
	Data  []byte
}

// FetchGate is consulted before a remote block is copied to a peer. It may
// block (held fetch) or return an error (failed fetch).
type FetchGate func(ctx context.Context, to, from *Peer, c cid.Cid) error

type World struct {
	H *hk.H

	mu       sync.Mutex
	peers    []*Peer
	byID     map[peer.ID]*Peer
	down     map[[2]int]bool
	isolated map[int]bool
	topics   map[string][]*topicSub
	pool     []*Msg
	nextMsg  int
	wire     []Wire
	chg      chan struct{}
	gate     FetchGate
	Instant  bool // deliver messages immediately instead of pooling
	// FailFastUnknown: a block that no peer of the world holds fails at once
	// (a fetch that times out) instead of blocking.
	FailFastUnknown bool
	// PeersDelay, when set, delays every topic.Peers() call (network-side latency).
	PeersDelay func() time.Duration
	tmp        string
	fetches    int64
	blocked    int64 // fetches currently waiting for a block that no reachable peer holds
	closed     bool
}

func NewWorld(h *hk.H) *World {
	tmp, err := os.MkdirTemp("", "verifw-")
	if err != nil {
		panic(err)
	}
	return &World{
		H:        h,
		byID:     map[peer.ID]*Peer{},
		down:     map[[2]int]bool{},
		isolated: map[int]bool{},
		topics:   map[string][]*topicSub{},
		chg:      make(chan struct{}),
		tmp:      tmp,
	}
}

func (w *World) TempDir() string { return w.tmp }

// Close stops every peer and removes temporary directories.
func (w *World) Close() {
	w.mu.Lock()
	peers := append([]*Peer{}, w.peers...)
	w.closed = true
	w.mu.Unlock()
	for _, p := range peers {
		p.Stop()
	}
	for _, p := range peers {
		p.closeNode()
	}
	w.mu.Lock()
	w.signalLocked()
	w.mu.Unlock()
	os.RemoveAll(w.tmp)
}

func (w *World) signalLocked() {
	close(w.chg)
	w.chg = make(chan struct{})
}

// Changed returns a channel closed at the next link / block / peer change.
func (w *World) Changed() <-chan struct{} {
	w.mu.Lock()
	defer w.mu.Unlock()
	return w.chg
}

func (w *World) Signal() {
	w.mu.Lock()
	w.signalLocked()
	w.mu.Unlock()
}

func key2(a, b int) [2]int {
	if a > b {
		a, b = b, a
	}
	return [2]int{a, b}
}

func (w *World) linkedLocked(a, b int) bool {
	if a == b {
		return false
	}
	return !w.down[key2(a, b)]
}

func (w *World) Linked(a, b *Peer) bool {
	w.mu.Lock()
	defer w.mu.Unlock()
	return w.linkedLocked(a.Idx, b.Idx)
}

func (w *World) Peers() []*Peer {
	w.mu.Lock()
	defer w.mu.Unlock()
	return append([]*Peer{}, w.peers...)
}

func (w *World) SetGate(g FetchGate) {
	w.mu.Lock()
	w.gate = g
	w.mu.Unlock()
}

// Isolate makes missing blocks fail fast on p (offline semantics).
func (w *World) Isolate(p *Peer, on bool) {
	w.mu.Lock()
	w.isolated[p.Idx] = on
	w.signalLocked()
	w.mu.Unlock()
}

// Cut takes the link between a and b down; topic members see each other leave.
func (w *World) Cut(a, b *Peer) {
	w.mu.Lock()
	if !w.linkedLocked(a.Idx, b.Idx) {
		w.mu.Unlock()
		return
	}
	w.down[key2(a.Idx, b.Idx)] = true
	w.membershipLocked(a.Idx, b.Idx, false)
	w.signalLocked()
	w.mu.Unlock()
}

// Heal brings the link up; topic members see each other join.
func (w *World) Heal(a, b *Peer) {
	w.mu.Lock()
	if w.linkedLocked(a.Idx, b.Idx) || a.Idx == b.Idx {
		w.mu.Unlock()
		return
	}
	delete(w.down, key2(a.Idx, b.Idx))
	w.membershipLocked(a.Idx, b.Idx, true)
	w.signalLocked()
	w.mu.Unlock()
}

// membershipLocked emits join/leave between the subscriptions of peers a and b
// on every topic both are subscribed to.
func (w *World) membershipLocked(a, b int, join bool) {
	names := make([]string, 0, len(w.topics))
	for t := range w.topics {
		names = append(names, t)
	}
	sort.Strings(names)
	for _, t := range names {
		var sa, sb []*topicSub
		for _, s := range w.topics[t] {
			if s.p.Idx == a {
				sa = append(sa, s)
			}
			if s.p.Idx == b {
				sb = append(sb, s)
			}
		}
		for _, x := range sa {
			for _, y := range sb {
				x.pushPeerEvt(y.p.ID, join)
				y.pushPeerEvt(x.p.ID, join)
			}
		}
	}
}

func (w *World) subscribe(s *topicSub) {
	w.mu.Lock()
	defer w.mu.Unlock()
	for _, o := range w.topics[s.topic] {
		if o.p.Idx != s.p.Idx && w.linkedLocked(o.p.Idx, s.p.Idx) {
			o.pushPeerEvt(s.p.ID, true)
			s.pushPeerEvt(o.p.ID, true)
		}
	}
	w.topics[s.topic] = append(w.topics[s.topic], s)
}

func (w *World) unsubscribe(s *topicSub) {
	w.mu.Lock()
	defer w.mu.Unlock()
	subs := w.topics[s.topic]
	for i, o := range subs {
		if o == s {
			subs = append(subs[:i:i], subs[i+1:]...)
			break
		}
	}
	if len(subs) == 0 {
		delete(w.topics, s.topic)
	} else {
		w.topics[s.topic] = subs
	}
	for _, o := range subs {
		if o.p.Idx != s.p.Idx && w.linkedLocked(o.p.Idx, s.p.Idx) {
			o.pushPeerEvt(s.p.ID, false)
		}
	}
}

func (w *World) topicPeers(s *topicSub) []peer.ID {
	w.mu.Lock()
	defer w.mu.Unlock()
	var out []peer.ID
	seen := map[peer.ID]bool{}
	for _, o := range w.topics[s.topic] {
		if o.p.Idx != s.p.Idx && w.linkedLocked(o.p.Idx, s.p.Idx) && !seen[o.p.ID] {
			seen[o.p.ID] = true
			out = append(out, o.p.ID)
		}
	}
	return out
}

// publish is called by a topic subscription's Publish.
func (w *World) publish(from *Peer, topic string, data []byte) {
	cp := append([]byte{}, data...)
	w.mu.Lock()
	w.wire = append(w.wire, Wire{Kind: "pub", From: from.Idx, To: -1, Topic: topic, Data: cp})
	var msgs []*Msg
	seen := map[int]bool{}
	for _, o := range w.topics[topic] {
		if o.p.Idx != from.Idx && w.linkedLocked(o.p.Idx, from.Idx) && !seen[o.p.Idx] {
			seen[o.p.Idx] = true
			w.nextMsg++
			msgs = append(msgs, &Msg{ID: w.nextMsg, Kind: "pub", From: from.Idx, To: o.p.Idx, Topic: topic, Data: cp})
		}
	}
	if !w.Instant {
		w.pool = append(w.pool, msgs...)
		msgs = nil
	}
	w.mu.Unlock()
	for _, m := range msgs {
		w.Deliver(m)
	}
}

func (w *World) send(from *Peer, to peer.ID, data []byte) error {
	cp := append([]byte{}, data...)
	w.mu.Lock()
	t := w.byID[to]
	if t == nil {
		w.mu.Unlock()
		return fmt.Errorf("sim: unknown peer %s", to)
	}
	w.wire = append(w.wire, Wire{Kind: "direct", From: from.Idx, To: t.Idx, Data: cp})
	if !w.linkedLocked(from.Idx, t.Idx) {
		w.mu.Unlock()
		return fmt.Errorf("sim: no route to peer %s", to)
	}
	w.nextMsg++
	m := &Msg{ID: w.nextMsg, Kind: "direct", From: from.Idx, To: t.Idx, Data: cp}
	instant := w.Instant
	if !instant {
		w.pool = append(w.pool, m)
	}
	w.mu.Unlock()
	if instant {
		w.Deliver(m)
	}
	return nil
}

func (w *World) connect(from *Peer, to peer.ID) error {
	w.mu.Lock()
	defer w.mu.Unlock()
	t := w.byID[to]
	if t == nil {
		return fmt.Errorf("sim: unknown peer %s", to)
	}
	if !w.linkedLocked(from.Idx, t.Idx) {
		return fmt.Errorf("sim: no route to peer %s", to)
	}
	return nil
}

// Inflight returns a copy of the in-flight pool.
func (w *World) Inflight() []*Msg {
	w.mu.Lock()
	defer w.mu.Unlock()
	return append([]*Msg{}, w.pool...)
}

func (w *World) InflightLen() int {
	w.mu.Lock()
	defer w.mu.Unlock()
	return len(w.pool)
}

// Take removes a message from the pool (by id) and returns it.
func (w *World) Take(id int) *Msg {
	w.mu.Lock()
	defer w.mu.Unlock()
	for i, m := range w.pool {
		if m.ID == id {
			w.pool = append(w.pool[:i:i], w.pool[i+1:]...)
			return m
		}
	}
	return nil
}

// Deliver hands m to its destination now (whether or not it is in the pool).
// Returns false when the destination is not reachable (message lost).
func (w *World) Deliver(m *Msg) bool {
	w.mu.Lock()
	if m.To < 0 || m.To >= len(w.peers) {
		w.mu.Unlock()
		return false
	}
	to := w.peers[m.To]
	if m.From >= 0 && !w.linkedLocked(m.From, m.To) {
		w.mu.Unlock()
		return false
	}
	var fromID peer.ID
	if m.From >= 0 && m.From < len(w.peers) {
		fromID = w.peers[m.From].ID
	}
	if m.Kind == "pub" {
		ok := false
		for _, s := range w.topics[m.Topic] {
			if s.p.Idx == m.To {
				s.pushMsg(m.Data)
				ok = true
			}
		}
		w.mu.Unlock()
		return ok
	}
	w.mu.Unlock()
	return to.deliverDirect(fromID, m.Data)
}

// DeliverAll delivers everything in the pool in FIFO order, repeatedly, until
// the pool stays empty after the system went idle.
func (w *World) DeliverAll() int {
	n := 0
	for {
		w.mu.Lock()
		pool := w.pool
		w.pool = nil
		w.mu.Unlock()
		if len(pool) == 0 {
			return n
		}
		for _, m := range pool {
			w.Deliver(m)
			n++
		}
	}
}

// DropAll empties the pool.
func (w *World) DropAll() int {
	w.mu.Lock()
	defer w.mu.Unlock()
	n := len(w.pool)
	w.pool = nil
	return n
}

// InjectPub delivers arbitrary bytes to peer `to` on topic (adversary).
func (w *World) InjectPub(from, to *Peer, topic string, data []byte) bool {
	fi := -1
	if from != nil {
		fi = from.Idx
	}
	cp := append([]byte{}, data...)
	w.mu.Lock()
	w.wire = append(w.wire, Wire{Kind: "pub-injected", From: fi, To: to.Idx, Topic: topic, Data: cp})
	w.mu.Unlock()
	return w.Deliver(&Msg{Kind: "pub", From: -1, To: to.Idx, Topic: topic, Data: cp})
}

// InjectDirect delivers arbitrary bytes to peer `to` as a direct-channel payload.
func (w *World) InjectDirect(from, to *Peer, data []byte) bool {
	cp := append([]byte{}, data...)
	var id peer.ID
	if from != nil {
		id = from.ID
	}
	return to.deliverDirect(id, cp)
}

// WireLog returns a copy of the wire log.
func (w *World) WireLog() []Wire {
	w.mu.Lock()
	defer w.mu.Unlock()
	return append([]Wire{}, w.wire...)
}

func (w *World) WireLen() int {
	w.mu.Lock()
	defer w.mu.Unlock()
	return len(w.wire)
}

// Blocked returns the number of block fetches currently waiting for a block no reachable peer holds.
func (w *World) Blocked() int64 { return atomic.LoadInt64(&w.blocked) }

// HoldBlocked lets a fetch gate that parks a fetch declare it (delta +1 / -1): a parked fetch is rest for
// IdleOpts.BlockedOK, like a fetch waiting for a block nobody holds.
func (w *World) HoldBlocked(delta int64) { atomic.AddInt64(&w.blocked, delta); w.Signal() }

// ---- idle detection ----

// ReplicatorsIdle reports whether every open store's replicator is at rest.
func (w *World) ReplicatorsIdle() bool {
	for _, p := range w.Peers() {
		for _, s := range p.Stores() {
			if !storeIdle(s) {
				return false
			}
		}
	}
	return true
}

// IdleOpts controls WaitIdle.
type IdleOpts struct {
	Stable   time.Duration // how long everything must stay unchanged
	Watchdog time.Duration
	// PoolMustBeEmpty: in-flight messages count as pending work.
	PoolMustBeEmpty bool
	// IgnoreReplicators: do not consult the replicators' own bookkeeping
	// (used where that bookkeeping itself is under test).
	IgnoreReplicators bool
	// BlockedOK: block fetches that wait for a block nobody holds are not work in progress; each of them
	// may account for one unit of pending work (the replication request that waits for it).
	BlockedOK bool
	// Extra fingerprint that must stay unchanged during the window.
	Fingerprint func() string
}

// WaitIdle blocks until pending work is zero, replicators are idle and the
// generation counter (and optional fingerprint) stayed unchanged for
// opts.Stable. Returns false if the watchdog fired first.
func (w *World) WaitIdle(opts IdleOpts) bool {
	if opts.Stable == 0 {
		opts.Stable = 15 * time.Millisecond
	}
	if opts.Watchdog == 0 {
		opts.Watchdog = 60 * time.Second
	}
	deadline := time.Now().Add(opts.Watchdog)
	var since time.Time
	var lastGen int64 = -1
	lastFP := ""
	sleep := 200 * time.Microsecond
	for {
		pend := w.H.Pending()
		pendOK := pend == 0
		if opts.BlockedOK {
			pendOK = pend >= 0 && pend <= atomic.LoadInt64(&w.blocked)
		}
		ok := pendOK && (!opts.PoolMustBeEmpty || w.InflightLen() == 0) && (opts.IgnoreReplicators || w.ReplicatorsIdle())
		gen := w.H.Generation()
		fp := ""
		if ok && opts.Fingerprint != nil {
			fp = opts.Fingerprint()
		}
		now := time.Now()
		if ok && gen == lastGen && fp == lastFP && !since.IsZero() {
			if now.Sub(since) >= opts.Stable {
				return true
			}
		} else {
			since = now
			if !ok {
				since = time.Time{}
			}
			lastGen = gen
			lastFP = fp
		}
		if now.After(deadline) {
			return false
		}
		time.Sleep(sleep)
		if sleep < 2*time.Millisecond {
			sleep *= 2
		}
	}
}

// Wedged reports a deadlock of the system under test: work is declared pending, yet for the whole window
// no hook fired, no block fetch is parked (gate, unknown block) and nothing is in flight. Nothing that is
// running could end such a state. It is a logical condition; the window only bounds how long the silence
// is observed.
func (w *World) Wedged(window time.Duration) bool {
	gen := w.H.Generation()
	deadline := time.Now().Add(window)
	for time.Now().Before(deadline) {
		if (w.H.Pending() == 0 && w.ReplicatorsIdle()) || w.Blocked() > 0 || w.InflightLen() > 0 || w.H.Generation() != gen {
			return false
		}
		time.Sleep(5 * time.Millisecond)
	}
	return true
}

// Settle delivers nothing; it just waits for rest with default options.
func (w *World) Settle() bool { return w.WaitIdle(IdleOpts{}) }

// Flush delivers all in-flight messages and waits for rest, until nothing is
// in flight any more.
func (w *World) Flush() bool {
	for i := 0; i < 10000; i++ {
		w.DeliverAll()
		if !w.WaitIdle(IdleOpts{}) {
			return false
		}
		if w.InflightLen() == 0 {
			return true
		}
	}
	return false
}

var _ = orbitdb.NewOrbitDB
var _ iface.Store
