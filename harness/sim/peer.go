package sim

import (
	"context"
	"crypto/rand"
	"encoding/base64"
	"fmt"
	"path/filepath"
	"sync"
	"sync/atomic"

	"berty.tech/go-ipfs-log/keystore"
	orbitdb "berty.tech/go-orbit-db"
	"berty.tech/go-orbit-db/baseorbitdb"
	"berty.tech/go-orbit-db/cache"
	"berty.tech/go-orbit-db/iface"
	"berty.tech/go-orbit-db/stores/replicator"
	blocks "github.com/ipfs/go-block-format"
	cid "github.com/ipfs/go-cid"
	ds "github.com/ipfs/go-datastore"
	dsync "github.com/ipfs/go-datastore/sync"
	ipld "github.com/ipfs/go-ipld-format"
	cfg "github.com/ipfs/kubo/config"
	ipfsCore "github.com/ipfs/kubo/core"
	"github.com/ipfs/kubo/core/coreapi"
	coreiface "github.com/ipfs/kubo/core/coreiface"
	"github.com/ipfs/kubo/repo"
	"github.com/libp2p/go-libp2p/core/crypto"
	"github.com/libp2p/go-libp2p/core/event"
	"github.com/libp2p/go-libp2p/core/peer"
)

// PeerOpts configures a peer.
type PeerOpts struct {
	Name   string
	OnDisk bool // orbitdb directory on disk (needed for restarts)
	// RepoDS, when set, is used as the kubo repo datastore (C05 replay).
	RepoDS repo.Datastore
	// Identity (libp2p key) to reuse; generated when nil.
	PrivKey crypto.PrivKey
	// Cache / Keystore decorators (C05).
	Cache        cache.Interface
	KeystoreDS   ds.Batching
	NoOrbit      bool // adversary / block holder only
	DirOverride  string
	PlainBus     bool // use an untraced bus
	DefaultCache bool
	// DirectFactory overrides the simulated direct channel (C12 raw frames, C20).
	DirectFactory iface.DirectChannelFactory
}

type Peer struct {
	W    *World
	Idx  int
	Name string
	Opts PeerOpts

	Priv crypto.PrivKey
	ID   peer.ID
	Node *ipfsCore.IpfsNode
	API  coreiface.CoreAPI // wrapped
	Raw  coreiface.CoreAPI
	Dir  string

	mu     sync.Mutex
	DB     iface.OrbitDB
	Bus    event.Bus
	dmu    sync.Mutex
	direct *simDirect
	stores map[string]iface.Store
	ctx    context.Context
	cancel context.CancelFunc
	// cancels the context the current orbit-db instance was created with
	instCancel context.CancelFunc

	RemoteFetches int64
}

func newRepo(priv crypto.PrivKey, d repo.Datastore) (*repo.Mock, peer.ID, error) {
	pid, err := peer.IDFromPublicKey(priv.GetPublic())
	if err != nil {
		return nil, "", err
	}
	privb, err := crypto.MarshalPrivateKey(priv)
	if err != nil {
		return nil, "", err
	}
	c := cfg.Config{}
	c.Bootstrap = []string{}
	c.Addresses.Swarm = []string{}
	c.Identity.PeerID = pid.String()
	c.Identity.PrivKey = base64.StdEncoding.EncodeToString(privb)
	c.Swarm.ResourceMgr.Enabled = cfg.False
	if d == nil {
		d = dsync.MutexWrap(ds.NewMapDatastore())
	}
	return &repo.Mock{D: d, C: c}, pid, nil
}

// AddPeer creates a peer (kubo offline node) and, unless NoOrbit, starts an
// orbit-db instance on it.
func (w *World) AddPeer(o PeerOpts) (*Peer, error) {
	priv := o.PrivKey
	if priv == nil {
		var err error
		priv, _, err = crypto.GenerateEd25519Key(rand.Reader)
		if err != nil {
			return nil, err
		}
	}
	r, pid, err := newRepo(priv, o.RepoDS)
	if err != nil {
		return nil, err
	}
	ctx, cancel := context.WithCancel(context.Background())
	node, err := ipfsCore.NewNode(ctx, &ipfsCore.BuildCfg{Online: false, Repo: r})
	if err != nil {
		cancel()
		return nil, fmt.Errorf("kubo node: %w", err)
	}
	raw, err := coreapi.NewCoreAPI(node)
	if err != nil {
		cancel()
		return nil, err
	}
	p := &Peer{W: w, Name: o.Name, Opts: o, Priv: priv, ID: pid, Node: node, Raw: raw, ctx: ctx, cancel: cancel, stores: map[string]iface.Store{}}
	p.API = &apiWrap{CoreAPI: raw, p: p}
	w.mu.Lock()
	p.Idx = len(w.peers)
	if p.Name == "" {
		p.Name = fmt.Sprintf("p%d", p.Idx)
	}
	w.peers = append(w.peers, p)
	w.byID[pid] = p
	w.mu.Unlock()
	if o.DirOverride != "" {
		p.Dir = o.DirOverride
	} else if o.OnDisk {
		p.Dir = filepath.Join(w.tmp, fmt.Sprintf("odb-%d", p.Idx))
	}
	if !o.NoOrbit {
		if err := p.Start(); err != nil {
			return nil, err
		}
	}
	return p, nil
}

// Start creates the orbit-db instance of the peer.
func (p *Peer) Start() error {
	p.mu.Lock()
	defer p.mu.Unlock()
	if p.DB != nil {
		return fmt.Errorf("already started")
	}
	var bus event.Bus
	if !p.Opts.PlainBus {
		bus = p.W.H.NewBus()
	}
	opts := &baseorbitdb.NewOrbitDBOptions{
		PubSub:   &simPubSub{p: p},
		EventBus: bus,
	}
	if p.Opts.DirectFactory != nil {
		opts.DirectChannelFactory = p.Opts.DirectFactory
	} else {
		opts.DirectChannelFactory = func(ctx context.Context, emitter iface.DirectChannelEmitter, _ *iface.DirectChannelOptions) (iface.DirectChannel, error) {
			d := &simDirect{p: p, emitter: emitter}
			p.dmu.Lock()
			p.direct = d
			p.dmu.Unlock()
			return d, nil
		}
	}
	if p.Dir != "" {
		dir := p.Dir
		opts.Directory = &dir
	}
	if p.Opts.KeystoreDS != nil {
		ks, err := keystore.NewKeystore(p.Opts.KeystoreDS)
		if err != nil {
			return err
		}
		opts.Keystore = ks
	}
	if p.Opts.Cache != nil {
		opts.Cache = p.Opts.Cache
	}
	ictx, icancel := context.WithCancel(p.ctx)
	db, err := orbitdb.NewOrbitDB(ictx, p.API, opts)
	if err != nil {
		icancel()
		return fmt.Errorf("NewOrbitDB: %w", err)
	}
	if p.instCancel != nil {
		p.instCancel()
	}
	p.instCancel = icancel
	p.DB = db
	p.Bus = db.EventBus()
	p.stores = map[string]iface.Store{}
	return nil
}

func (p *Peer) clearDirect(d *simDirect) {
	p.dmu.Lock()
	if p.direct == d {
		p.direct = nil
	}
	p.dmu.Unlock()
}

func (p *Peer) deliverDirect(from peer.ID, data []byte) bool {
	p.dmu.Lock()
	d := p.direct
	p.dmu.Unlock()
	if d == nil {
		return false
	}
	return d.emit(from, data)
}

// CancelInstanceContext ends the context the instance was created with (the application cancels its
// root context); the instance itself is not closed.
func (p *Peer) CancelInstanceContext() {
	p.mu.Lock()
	c := p.instCancel
	p.mu.Unlock()
	if c != nil {
		c()
	}
}

// Stop closes the orbit-db instance (the kubo node and directories stay).
func (p *Peer) Stop() {
	p.mu.Lock()
	db := p.DB
	bus := p.Bus
	var private []interface{}
	for _, s := range p.stores {
		private = append(private, s.Replicator().EventBus())
	}
	p.DB = nil
	p.stores = map[string]iface.Store{}
	p.mu.Unlock()
	if db == nil {
		return
	}
	_ = db.Close()
	// events delivered to consumers that have exited are never processed:
	// the accounting of the closed instance's buses is discarded
	if bus != nil {
		p.W.H.ForgetBus(bus)
	}
	for _, b := range private {
		p.W.H.ForgetBus(b)
	}
	p.W.Signal()
}

func (p *Peer) closeNode() {
	p.cancel()
	if p.Node != nil {
		_ = p.Node.Close()
	}
}

// Destroy stops the instance and the kubo node of the peer.
func (p *Peer) Destroy() {
	p.Stop()
	p.closeNode()
}

// Running reports whether the peer has a live orbit-db instance.
func (p *Peer) Running() bool {
	p.mu.Lock()
	defer p.mu.Unlock()
	return p.DB != nil
}

// Track remembers an open store (for idle detection and convenience).
func (p *Peer) Track(s iface.Store) {
	p.mu.Lock()
	p.stores[s.Address().String()] = s
	p.mu.Unlock()
}

func (p *Peer) Untrack(s iface.Store) {
	p.mu.Lock()
	delete(p.stores, s.Address().String())
	p.mu.Unlock()
	p.W.H.ForgetBus(s.Replicator().EventBus())
}

func (p *Peer) Stores() []iface.Store {
	p.mu.Lock()
	defer p.mu.Unlock()
	out := make([]iface.Store, 0, len(p.stores))
	for _, s := range p.stores {
		out = append(out, s)
	}
	return out
}

func storeIdle(s iface.Store) bool {
	if vs, ok := s.Replicator().(replicator.VerifStater); ok {
		return vs.VerifState().Idle()
	}
	return true
}

// HasBlock reports whether the peer's blockstore holds c.
func (p *Peer) HasBlock(ctx context.Context, c cid.Cid) bool {
	ok, err := p.Node.Blockstore.Has(ctx, c)
	return err == nil && ok
}

// PutBlock stores raw block bytes under their CID (content addressed: the
// caller supplies the cid, which must be the cid of data for honest peers; an
// adversary can only lie to itself).
func (p *Peer) PutBlock(ctx context.Context, b blocks.Block) error {
	if err := p.Node.Blockstore.Put(ctx, b); err != nil {
		return err
	}
	p.W.Signal()
	return nil
}

// ---- CoreAPI wrapper: remote block fetch ----

type apiWrap struct {
	coreiface.CoreAPI
	p *Peer
}

func (a *apiWrap) Dag() coreiface.APIDagService {
	return &dagWrap{APIDagService: a.CoreAPI.Dag(), p: a.p}
}

type dagWrap struct {
	coreiface.APIDagService
	p *Peer
}

func (d *dagWrap) Add(ctx context.Context, n ipld.Node) error {
	err := d.APIDagService.Add(ctx, n)
	if err == nil {
		d.p.W.Signal()
	}
	return err
}

func (d *dagWrap) Get(ctx context.Context, c cid.Cid) (ipld.Node, error) {
	p := d.p
	w := p.W
	for {
		if err := ctx.Err(); err != nil {
			return nil, err
		}
		chg := w.Changed()
		if p.HasBlock(ctx, c) {
			return d.APIDagService.Get(ctx, c)
		}
		// remote
		w.mu.Lock()
		var src *Peer
		for _, o := range w.peers {
			if o.Idx != p.Idx && w.linkedLocked(o.Idx, p.Idx) && !w.isolated[p.Idx] {
				if o.HasBlock(ctx, c) {
					src = o
					break
				}
			}
		}
		gate := w.gate
		iso := w.isolated[p.Idx] || w.closed
		if src == nil && w.FailFastUnknown && !iso {
			any := false
			for _, o := range w.peers {
				if o.Idx != p.Idx && o.HasBlock(ctx, c) {
					any = true
					break
				}
			}
			iso = !any
		}
		w.mu.Unlock()
		if src != nil {
			if gate != nil {
				if err := gate(ctx, p, src, c); err != nil {
					return nil, err
				}
				if !w.Linked(p, src) {
					continue
				}
			}
			blk, err := src.Node.Blockstore.Get(ctx, c)
			if err != nil {
				continue
			}
			if err := p.Node.Blockstore.Put(ctx, blk); err != nil {
				return nil, err
			}
			atomic.AddInt64(&p.RemoteFetches, 1)
			atomic.AddInt64(&w.fetches, 1)
			w.Signal()
			continue
		}
		if iso {
			return nil, ipld.ErrNotFound{Cid: c}
		}
		atomic.AddInt64(&w.blocked, 1)
		select {
		case <-ctx.Done():
			atomic.AddInt64(&w.blocked, -1)
			return nil, ctx.Err()
		case <-chg:
			atomic.AddInt64(&w.blocked, -1)
		}
	}
}
