package main

import (
	"fmt"
	"os"
	"strconv"

	"verifharness/fw"
)

func seedEnv() int64 {
	if s := os.Getenv("VERIF_SEED"); s != "" {
		if n, err := strconv.ParseInt(s, 10, 64); err == nil {
			return n
		}
	}
	return 1
}

func main() {
	if len(os.Args) < 2 {
		fmt.Fprintln(os.Stderr, "usage: harness run <ID> <tier> | child ... | replay <ID> <path> | list")
		os.Exit(2)
	}
	switch os.Args[1] {
	case "list":
		for _, id := range fw.IDs() {
			fmt.Println(id)
		}
	case "run":
		os.Exit(fw.ParentMain(os.Args[2], os.Args[3], seedEnv()))
	case "child":
		seed, _ := strconv.ParseInt(os.Args[4], 10, 64)
		from, _ := strconv.Atoi(os.Args[5])
		to, _ := strconv.Atoi(os.Args[6])
		os.Exit(fw.ChildMain(os.Args[2], os.Args[3], seed, from, to, os.Args[7]))
	case "c05kill":
		seed, _ := strconv.ParseInt(os.Args[3], 10, 64)
		ka, _ := strconv.ParseInt(os.Args[4], 10, 64)
		os.Exit(KillMain(os.Args[2], seed, ka, os.Args[5]))
	case "replay":
		n := 10
		if x, err := strconv.Atoi(os.Getenv("VERIF_REPLAY_N")); err == nil && x > 0 {
			n = x
		}
		os.Exit(fw.ReplayMain(os.Args[2], os.Args[3], n))
	default:
		fmt.Fprintln(os.Stderr, "unknown command")
		os.Exit(2)
	}
}
