package main

import (
	"bufio"
	"context"
	"crypto/rand"
	"fmt"
	mrand "math/rand"
	"os"
	"os/exec"
	"path/filepath"
	"strconv"
	"strings"
	"sync/atomic"
	"syscall"
	"time"

	"berty.tech/go-orbit-db/address"
	"berty.tech/go-orbit-db/cache"
	"berty.tech/go-orbit-db/cache/cacheleveldown"
	"berty.tech/go-orbit-db/iface"
	"berty.tech/go-orbit-db/stores"
	ds "github.com/ipfs/go-datastore"
	"github.com/ipfs/go-datastore/query"
	leveldb "github.com/ipfs/go-ds-leveldb"
	"github.com/libp2p/go-libp2p/core/crypto"

	"verifharness/fw"
	"verifharness/hk"
	"verifharness/sim"
)

// countDS counts write effects reaching a real datastore and calls onEffect
// after each one returned.
type countDS struct {
	ds.Batching
	n        *int64
	onEffect func(n int64)
}

func (c *countDS) Put(ctx context.Context, k ds.Key, v []byte) error {
	err := c.Batching.Put(ctx, k, v)
	if err == nil {
		c.onEffect(atomic.AddInt64(c.n, 1))
	}
	return err
}
func (c *countDS) Delete(ctx context.Context, k ds.Key) error {
	err := c.Batching.Delete(ctx, k)
	if err == nil {
		c.onEffect(atomic.AddInt64(c.n, 1))
	}
	return err
}
func (c *countDS) Batch(ctx context.Context) (ds.Batch, error) {
	b, err := c.Batching.Batch(ctx)
	if err != nil {
		return nil, err
	}
	return &countBatch{Batch: b, c: c}, nil
}

type countBatch struct {
	ds.Batch
	c *countDS
}

func (b *countBatch) Commit(ctx context.Context) error {
	err := b.Batch.Commit(ctx)
	if err == nil {
		b.c.onEffect(atomic.AddInt64(b.c.n, 1))
	}
	return err
}

// plainDS adapts a non-batching datastore (the cache) for counting.
type countPlain struct {
	ds.Datastore
	n        *int64
	onEffect func(n int64)
}

func (c *countPlain) Put(ctx context.Context, k ds.Key, v []byte) error {
	err := c.Datastore.Put(ctx, k, v)
	if err == nil {
		c.onEffect(atomic.AddInt64(c.n, 1))
	}
	return err
}
func (c *countPlain) Delete(ctx context.Context, k ds.Key) error {
	err := c.Datastore.Delete(ctx, k)
	if err == nil {
		c.onEffect(atomic.AddInt64(c.n, 1))
	}
	return err
}
func (c *countPlain) Query(ctx context.Context, q query.Query) (query.Results, error) {
	return c.Datastore.Query(ctx, q)
}

type countCache struct {
	real     cache.Interface
	n        *int64
	onEffect func(n int64)
}

func (c *countCache) Load(dir string, a address.Address) (ds.Datastore, error) {
	d, err := c.real.Load(dir, a)
	if err != nil {
		return nil, err
	}
	return &countPlain{Datastore: d, n: c.n, onEffect: c.onEffect}, nil
}
func (c *countCache) Close() error                                { return c.real.Close() }
func (c *countCache) Destroy(dir string, a address.Address) error { return c.real.Destroy(dir, a) }

func loadOrCreateKey(path string) (crypto.PrivKey, error) {
	if b, err := os.ReadFile(path); err == nil {
		return crypto.UnmarshalPrivateKey(b)
	}
	priv, _, err := crypto.GenerateEd25519Key(rand.Reader)
	if err != nil {
		return nil, err
	}
	b, _ := crypto.MarshalPrivateKey(priv)
	return priv, os.WriteFile(path, b, 0o600)
}

// killPeer opens the on-disk peer of a kill-mode directory.
func killPeer(e *Env, dir string, onEffect func(int64)) (*sim.Peer, func(), error) {
	priv, err := loadOrCreateKey(filepath.Join(dir, "key"))
	if err != nil {
		return nil, nil, err
	}
	ldb, err := leveldb.NewDatastore(filepath.Join(dir, "repo"), nil)
	if err != nil {
		return nil, nil, err
	}
	n := new(int64)
	if onEffect == nil {
		onEffect = func(int64) {}
	}
	p, err := e.W.AddPeer(sim.PeerOpts{
		RepoDS:      &countDS{Batching: ldb, n: n, onEffect: onEffect},
		PrivKey:     priv,
		DirOverride: filepath.Join(dir, "odb"),
		Cache:       &countCache{real: cacheleveldown.New(nil), n: n, onEffect: onEffect},
	})
	if err != nil {
		ldb.Close()
		return nil, nil, err
	}
	return p, func() { p.Destroy() }, nil
}

func appendLine(path, line string) {
	f, err := os.OpenFile(path, os.O_APPEND|os.O_CREATE|os.O_WRONLY, 0o644)
	if err != nil {
		return
	}
	f.WriteString(line + "\n")
	f.Sync()
	f.Close()
}

// KillMain is the grandchild: it continues the history in dir and kills
// itself right after the killAfter-th persistence effect has returned.
func KillMain(dir string, seed int64, killAfter int64, typ string) int {
	hk.Install()
	e := NewEnv()
	rng := mrand.New(mrand.NewSource(seed))
	armed := int32(0)
	P, _, err := killPeer(e, dir, func(n int64) {
		if atomic.LoadInt32(&armed) == 1 && n >= killAfter {
			syscall.Kill(os.Getpid(), syscall.SIGKILL)
			select {}
		}
	})
	if err != nil {
		fmt.Fprintln(os.Stderr, "killPeer:", err)
		return 3
	}
	O, err := e.W.AddPeer(sim.PeerOpts{})
	if err != nil {
		return 3
	}
	addrFile := filepath.Join(dir, "addr")
	var s iface.Store
	if b, err := os.ReadFile(addrFile); err == nil {
		ctx, cancel := context.WithTimeout(bg, 30*time.Second)
		s, err = P.DB.Open(ctx, strings.TrimSpace(string(b)), &iface.CreateDBOptions{})
		cancel()
		if err != nil {
			fmt.Fprintln(os.Stderr, "open:", err)
			return 4
		}
		if err := s.Load(bg, -1); err != nil {
			fmt.Fprintln(os.Stderr, "load:", err)
			return 4
		}
	} else {
		s, err = P.DB.Create(bg, "c05k", typ, &iface.CreateDBOptions{AccessController: writeAC("*")})
		if err != nil {
			fmt.Fprintln(os.Stderr, "create:", err)
			return 3
		}
		os.WriteFile(addrFile, []byte(s.Address().String()), 0o644)
	}
	P.Track(s)
	so, err := O.DB.Open(bg, s.Address().String(), &iface.CreateDBOptions{})
	if err != nil {
		fmt.Fprintln(os.Stderr, "open remote:", err)
		return 3
	}
	O.Track(so)
	e.W.Flush()
	acks := filepath.Join(dir, "acks")
	sub, _ := s.EventBus().Subscribe(new(stores.EventReplicated), busBuf(1024))
	go func() {
		for x := range sub.Out() {
			for _, en := range x.(stores.EventReplicated).Entries {
				appendLine(acks, "REPL "+en.GetHash().String())
			}
		}
	}()
	atomic.StoreInt32(&armed, 1)
	for i := 0; ; i++ {
		if rng.Intn(4) == 0 {
			if _, err := ApplyOp(bg, so, honestOp(typ, int(seed%1000)*1000+500+i)); err == nil {
				e.W.Flush()
			}
			continue
		}
		op, err := ApplyOp(bg, s, honestOp(typ, int(seed%1000)*1000+i))
		if err != nil {
			fmt.Fprintln(os.Stderr, "write:", err)
			return 5
		}
		appendLine(acks, "WRITE "+op.GetEntry().GetHash().String())
		if i > 5000 {
			return 6 // never killed: killAfter too large
		}
	}
}

func c05Kill(c fw.Case) fw.Verdict {
	v := fw.Verdict{}
	rng := mrand.New(mrand.NewSource(c.Seed))
	typ := c.Str("type", tKV)
	dir, err := os.MkdirTemp("", "c05kill-")
	if err != nil {
		return fw.Verdict{Status: fw.Inconclusive, What: err.Error()}
	}
	defer os.RemoveAll(dir)
	exe, _ := os.Executable()
	rounds := c.Int("rounds", 3)
	var kills []int
	for r := 0; r < rounds; r++ {
		killAfter := 1 + rng.Intn(40)
		kills = append(kills, killAfter)
		cmd := exec.Command(exe, "c05kill", dir, strconv.FormatInt(c.Seed+int64(r), 10), strconv.Itoa(killAfter), typ)
		out, _ := cmd.CombinedOutput()
		ws, _ := cmd.ProcessState.Sys().(syscall.WaitStatus)
		if !ws.Signaled() || ws.Signal() != syscall.SIGKILL {
			return fw.Verdict{Status: fw.Inconclusive, What: fmt.Sprintf("grandchild was not killed (round %d, kill-after %d): %s", r, killAfter, tailLinesS(string(out), 8))}
		}
		v.Count("sigkills", 1)
		// recover in this process
		e := NewEnv()
		res := func() *fw.Verdict {
			defer e.Close()
			P, closeP, err := killPeer(e, dir, nil)
			if err != nil {
				return &fw.Verdict{Status: fw.Violated, Key: "recovery-instance-failed/sigkill", NonTrivial: true, What: "instance cannot be reopened after SIGKILL: " + err.Error()}
			}
			defer closeP()
			e.W.Isolate(P, true)
			ab, err := os.ReadFile(filepath.Join(dir, "addr"))
			if err != nil {
				return nil // killed before the database existed
			}
			ctx, cancel := context.WithTimeout(bg, 30*time.Second)
			s, err := P.DB.Open(ctx, strings.TrimSpace(string(ab)), &iface.CreateDBOptions{})
			cancel()
			if err != nil {
				if r == 0 {
					return nil // the manifest itself may not have been written before the first kill
				}
				return &fw.Verdict{Status: fw.Violated, Key: "recovery-open-failed/sigkill", NonTrivial: true, What: "database cannot be reopened after SIGKILL: " + err.Error()}
			}
			P.Track(s)
			lerr := s.Load(bg, -1)
			e.W.Settle()
			sn := TakeSnap(typ, s, P.Idx)
			have := map[string]bool{}
			for _, h := range sn.Order {
				have[h] = true
			}
			f, err := os.Open(filepath.Join(dir, "acks"))
			nack := 0
			if err == nil {
				sc := bufio.NewScanner(f)
				for sc.Scan() {
					parts := strings.Fields(sc.Text())
					if len(parts) != 2 {
						continue
					}
					nack++
					if !have[parts[1]] {
						f.Close()
						what := fmt.Sprintf("after SIGKILL following persistence effect %d (round %d) the acknowledged %s entry %s is missing; recovered %d entries", killAfter, r, strings.ToLower(parts[0]), short(parts[1]), len(sn.Order))
						if lerr != nil {
							what += "; Load: " + lerr.Error()
						}
						return &fw.Verdict{Status: fw.Violated, Key: "acknowledged-" + map[string]string{"WRITE": "write", "REPL": "replicated"}[parts[0]] + "-lost-after-crash/sigkill", NonTrivial: true, What: what}
					}
				}
				f.Close()
			}
			v.Count("acknowledged_entries_checked", int64(nack))
			if lerr != nil {
				return &fw.Verdict{Status: fw.Violated, Key: "recovery-load-error/sigkill", NonTrivial: true, What: "Load(-1) after SIGKILL: " + lerr.Error()}
			}
			if ok, miss := ClosedUnderNext(sn.Entries, sn.Order); !ok {
				return &fw.Verdict{Status: fw.Violated, Key: "recovered-log-not-closed/sigkill", NonTrivial: true, What: "recovered log references missing entry " + short(miss)}
			}
			if vio := checkSnapAgainstModel(typ, sn.Entries, sn, &v); vio != nil {
				return &fw.Verdict{Status: fw.Violated, Key: vio.Key + "/sigkill", NonTrivial: true, What: vio.What}
			}
			if nack > 0 {
				v.Sigs = append(v.Sigs, fw.HashSig("kill", c.Seed, r))
			}
			return nil
		}()
		if res != nil {
			res.Counters = v.Counters
			return *res
		}
	}
	v.Status = fw.Held
	v.NonTrivial = true
	v.Sig = fw.HashSig("kill", c.Seed)
	v.Sample = map[string]interface{}{"mode": "sigkill-on-real-leveldb", "type": typ, "kill_after_effect": kills}
	return v
}

func tailLinesS(s string, n int) string {
	l := strings.Split(strings.TrimSpace(s), "\n")
	if len(l) > n {
		l = l[len(l)-n:]
	}
	return strings.Join(l, " | ")
}
