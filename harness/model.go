package main

import (
	"crypto/sha256"
	"encoding/hex"
	"encoding/json"
	"fmt"
	"sort"
	"strings"
)

func hashStrings(ss []string) string {
	h := sha256.New()
	for _, s := range ss {
		h.Write([]byte(s))
		h.Write([]byte{0})
	}
	return hex.EncodeToString(h.Sum(nil))[:16]
}

// ModelOrder is the reference total order of a set of entries: ascending by
// (Lamport time, clock id bytes). Under the uniqueness assumption of C01 this
// is a strict order.
func ModelOrder(entries map[string]*EntryInfo, set []string) []string {
	out := append([]string{}, set...)
	sort.SliceStable(out, func(i, j int) bool {
		a, b := entries[out[i]], entries[out[j]]
		if a.Time != b.Time {
			return a.Time < b.Time
		}
		if a.ClockID != b.ClockID {
			return a.ClockID < b.ClockID // hex of equal-length ids compares like bytes
		}
		return a.Hash < b.Hash
	})
	return out
}

// ClockCollision reports two distinct entries with equal (time, id): outside
// the stated assumption.
func ClockCollision(entries map[string]*EntryInfo, set []string) bool {
	seen := map[string]bool{}
	for _, h := range set {
		e := entries[h]
		k := fmt.Sprintf("%d/%s", e.Time, e.ClockID)
		if seen[k] {
			return true
		}
		seen[k] = true
	}
	return false
}

// ModelHeads = entries of the set not referenced by a `next` of the set.
func ModelHeads(entries map[string]*EntryInfo, set []string) []string {
	ref := map[string]bool{}
	for _, h := range set {
		for _, n := range entries[h].Next {
			ref[n] = true
		}
	}
	var out []string
	for _, h := range set {
		if !ref[h] {
			out = append(out, h)
		}
	}
	sort.Strings(out)
	return out
}

// ClosedUnderNext reports whether every `next` of every entry of the set is
// in the set; it returns one missing hash otherwise.
func ClosedUnderNext(entries map[string]*EntryInfo, set []string) (bool, string) {
	in := map[string]bool{}
	for _, h := range set {
		in[h] = true
	}
	for _, h := range set {
		for _, n := range entries[h].Next {
			if !in[n] {
				return false, n
			}
		}
	}
	return true, ""
}

// Ancestors returns the set of hashes reachable from h over next ∪ refs
// (within the known universe), excluding h.
func Ancestors(entries map[string]*EntryInfo, h string) map[string]bool {
	out := map[string]bool{}
	stack := []string{h}
	for len(stack) > 0 {
		x := stack[len(stack)-1]
		stack = stack[:len(stack)-1]
		e := entries[x]
		if e == nil {
			continue
		}
		for _, n := range append(append([]string{}, e.Next...), e.Refs...) {
			if !out[n] {
				out[n] = true
				stack = append(stack, n)
			}
		}
	}
	return out
}

// Closure returns heads plus all their ancestors over next (within universe).
func Closure(entries map[string]*EntryInfo, heads []string) []string {
	seen := map[string]bool{}
	stack := append([]string{}, heads...)
	for len(stack) > 0 {
		x := stack[len(stack)-1]
		stack = stack[:len(stack)-1]
		if seen[x] || entries[x] == nil {
			continue
		}
		seen[x] = true
		stack = append(stack, entries[x].Next...)
	}
	out := make([]string, 0, len(seen))
	for h := range seen {
		out = append(out, h)
	}
	sort.Strings(out)
	return out
}

type mOp struct {
	Key   *string `json:"key"`
	Op    string  `json:"op"`
	Value []byte  `json:"value"`
	Docs  []struct {
		Key   string `json:"key"`
		Value []byte `json:"value"`
	} `json:"docs"`
}

func parseOp(payload []byte) (mOp, error) {
	var o mOp
	err := json.Unmarshal(payload, &o)
	return o, err
}

// ModelKV replays put/delete in order, last writer wins.
func ModelKV(entries map[string]*EntryInfo, order []string) map[string][]byte {
	m := map[string][]byte{}
	for _, h := range order {
		o, err := parseOp(entries[h].Payload)
		if err != nil || o.Key == nil {
			continue
		}
		switch o.Op {
		case "PUT":
			m[*o.Key] = o.Value
		case "DEL":
			delete(m, *o.Key)
		}
	}
	return m
}

// ModelDocs replays put / putall / delete in order.
func ModelDocs(entries map[string]*EntryInfo, order []string) map[string][]byte {
	m := map[string][]byte{}
	for _, h := range order {
		o, err := parseOp(entries[h].Payload)
		if err != nil {
			continue
		}
		if o.Op == "PUTALL" {
			for _, d := range o.Docs {
				m[d.Key] = d.Value
			}
			continue
		}
		if o.Key == nil || *o.Key == "" {
			continue
		}
		switch o.Op {
		case "PUT":
			m[*o.Key] = o.Value
		case "DEL":
			delete(m, *o.Key)
		}
	}
	return m
}

func canonDocsModel(m map[string][]byte) string {
	var out []string
	for _, v := range m {
		var x interface{}
		if err := json.Unmarshal(v, &x); err != nil {
			out = append(out, "UNPARSEABLE:"+hex.EncodeToString(v))
			continue
		}
		b, _ := json.Marshal(x)
		out = append(out, string(b))
	}
	sort.Strings(out)
	return strings.Join(out, "\n")
}

// ModelView returns the canonical view text the store must show for a log
// listed in `order`.
func ModelView(typ string, entries map[string]*EntryInfo, order []string) string {
	switch typ {
	case tKV:
		return canonKV(ModelKV(entries, order))
	case tDocs:
		return canonDocsModel(ModelDocs(entries, order))
	default:
		var sb strings.Builder
		for _, h := range order {
			o, _ := parseOp(entries[h].Payload)
			fmt.Fprintf(&sb, "%s:%x\n", h, o.Value)
		}
		return sb.String()
	}
}

// ModelWindow is the documented iterator contract of the event log over the
// full listing `full` (hashes, oldest first).
// bound kind: "" | gt | gte | lt | lte ; amount: nil => 1.
func ModelWindow(full []string, kind, bound string, amount *int) []string {
	n := 1
	if amount != nil {
		switch {
		case *amount == 0:
			n = 1
		case *amount < 0:
			n = len(full)
		default:
			n = *amount
		}
	}
	idx := -1
	for i, h := range full {
		if h == bound {
			idx = i
			break
		}
	}
	clamp := func(a, b int) []string {
		if a < 0 {
			a = 0
		}
		if b > len(full) {
			b = len(full)
		}
		if a >= b {
			return nil
		}
		return append([]string{}, full[a:b]...)
	}
	switch kind {
	case "gt":
		return clamp(idx+1, idx+1+n)
	case "gte":
		return clamp(idx, idx+n)
	case "lt":
		return clamp(idx-n, idx)
	case "lte":
		return clamp(idx+1-n, idx+1)
	default:
		return clamp(len(full)-n, len(full))
	}
}

// IsSubsequence reports whether a is a subsequence of b.
func IsSubsequence(a, b []string) bool {
	i := 0
	for _, x := range b {
		if i < len(a) && a[i] == x {
			i++
		}
	}
	return i == len(a)
}

func eqStrings(a, b []string) bool {
	if len(a) != len(b) {
		return false
	}
	for i := range a {
		if a[i] != b[i] {
			return false
		}
	}
	return true
}

func short(h string) string {
	if len(h) > 8 {
		return h[len(h)-6:]
	}
	return h
}

func shorts(hs []string) string {
	var o []string
	for _, h := range hs {
		o = append(o, short(h))
	}
	return strings.Join(o, ",")
}
