package main

import (
	"context"
	"fmt"
	"math/rand"
	"os"
	"path/filepath"
	"regexp"
	"runtime"
	"sort"
	"strings"
	"sync"
	"sync/atomic"
	"time"

	"berty.tech/go-orbit-db/events"
	"berty.tech/go-orbit-db/iface"
	cid "github.com/ipfs/go-cid"

	"verifharness/fw"
	"verifharness/hk"
	"verifharness/sim"
)

func init() {
	fw.Register(&fw.Property{
		ID:    "C18",
		Level: "exploration",
		Rule: "cases = an on-disk instance with 1-3 databases (mixed types) plus a remote writer; a writer goroutine, replication of remote entries and (in some cases) a Load run while Close of ONE store / of the WHOLE instance / Drop of one database (in every second close-instance case right after the context the instance was created with has been cancelled, in every second one with the cache datastore of one database reporting an error on Close) is issued at a moment in {idle, write.after-append, write.after-persist, write.after-index, repl.after-fetch, merge.after-join, during Load, while an application-issued Sync (background context) is blocked in a block fetch, PRNG delay}: the hooked goroutine is held at the point while the closing goroutine runs. Afterwards the operation set {write, read, Load, Sync, Close, Close, Drop} is issued on the closed store, each under a watchdog. After Close of a store (without Drop) the database is reopened on the live instance, the OLD handle is closed twice more, and heads exchanged on reconnect must reach the new handle. Finally every instance is closed and goroutines are attributed by creation site. " +
			"distinct = (databases, target, action, moment, store type, post-close operations, PRNG seed of the background timing); non-trivial = the moment was reached while activity was in flight (point arrivals observed, or idle by design) and all post-close operations were issued",
		Assumptions: []string{"goroutines are attributed to go-orbit-db by their 'created by' frame; harness subscriptions are cancelled first; goroutines of kubo/libp2p/leveldb are not judged", "a hang = the operation still blocked after the watchdog (15 s plain) while the world is otherwise at rest"},
		Cases:       c18Cases,
		Run:         c18Run,
		MinDistinct: map[string]int{"quick": 35, "thorough": 200},
		Batch:       6,
		CaseTimeout: 240 * time.Second,
		Explain:     "oracle: no panic (process survival); every post-close operation returns; second and third Close return nil; after closing everything no goroutine created by a go-orbit-db non-test package remains; the directory reopens and Load(-1) shows every acknowledged write; after Drop the dropped database reopens empty while every sibling still has all its entries and accepts writes.",
	})
}

var c18Moments = []string{"idle", "write.after-append", "write.after-persist", "write.after-index", "repl.after-fetch", "merge.after-join", "during-load", "sync-blocked-in-fetch", "random"}

func c18Cases(tier string, seed int64) []fw.Case {
	var out []fw.Case
	rng := rand.New(rand.NewSource(seed*715225739 + 18))
	reps := 1
	if tier == "thorough" {
		reps = 6
	}
	idx := 0
	for rep := 0; rep < reps; rep++ {
		for _, action := range []string{"close-store", "close-instance", "drop"} {
			for _, m := range c18Moments {
				for _, nd := range []int{1, 3} {
					if rep == 0 && nd == 3 && (m == "write.after-index" || m == "random") {
						continue
					}
					out = append(out, fw.Case{Idx: idx, Seed: rng.Int63(), P: map[string]interface{}{"action": action, "moment": m, "ndbs": nd, "type": storeTypes[idx%3], "postdrop": action == "close-store" && idx%2 == 1, "ctxfirst": action == "close-instance" && idx%2 == 0, "closeerr": action == "close-instance" && idx%4 >= 2, "legacy": idx%3 == 0}})
					idx++
				}
			}
		}
	}
	return out
}

var reCreated = regexp.MustCompile(`created by (berty\.tech/go-orbit-db/[^\s]+)`)

// orbitGoroutines returns creation site -> count for live goroutines created
// by go-orbit-db (non-test, non-hook) code.
func orbitGoroutines() map[string]int {
	buf := make([]byte, 16<<20)
	n := runtime.Stack(buf, true)
	out := map[string]int{}
	for _, blk := range strings.Split(string(buf[:n]), "\n\n") {
		m := reCreated.FindStringSubmatch(blk)
		if m == nil {
			continue
		}
		site := m[1]
		if strings.Contains(site, "/verifhook.") || strings.Contains(site, "/tests.") {
			continue
		}
		site = regexp.MustCompile(`\.func\d+(\.\d+)*$`).ReplaceAllString(site, "")
		out[strings.TrimPrefix(site, "berty.tech/go-orbit-db/")]++
	}
	return out
}

type opResult struct {
	name string
	err  error
	hung bool
}

func withWatchdog(name string, d time.Duration, f func() error) opResult {
	done := make(chan error, 1)
	go func() { done <- f() }()
	select {
	case err := <-done:
		return opResult{name: name, err: err}
	case <-time.After(d):
		return opResult{name: name, hung: true}
	}
}

func sameStore(arg interface{}, s iface.Store) bool {
	x, ok := arg.(interface {
		Identity() interface{}
	})
	_ = x
	_ = ok
	b, ok2 := arg.(iface.Store)
	if !ok2 {
		return false
	}
	return b.Address().String() == s.Address().String() && b.Identity().ID == s.Identity().ID
}

func c18Run(c fw.Case) fw.Verdict {
	t0 := time.Now()
	lap := func(what string) {
		if os.Getenv("VERIF_VERBOSE") != "" {
			fmt.Fprintf(os.Stderr, "lap %-28s %6d ms pending=%v\n", what, time.Since(t0).Milliseconds(), hk.Global.Detail())
		}
	}
	defer lap("end")
	e := NewEnv()
	defer e.Close()
	v := fw.Verdict{}
	_ = rand.Int63 // PRNGs are created per goroutine below
	action, moment, nd, typ := c.Str("action", "close-store"), c.Str("moment", "idle"), c.Int("ndbs", 1), c.Str("type", tKV)
	wd := 15 * time.Second
	if raceBuild() {
		wd = 45 * time.Second
	}
	fc := newFaultCache()
	P, err := e.W.AddPeer(sim.PeerOpts{OnDisk: true, Cache: fc})
	if err != nil {
		return fw.Verdict{Status: fw.Inconclusive, What: err.Error()}
	}
	O, err := e.W.AddPeer(sim.PeerOpts{})
	if err != nil {
		return fw.Verdict{Status: fw.Inconclusive, What: err.Error()}
	}
	e.W.Instant = true // announcements flow freely
	var dbs []*DB
	for i := 0; i < nd; i++ {
		t := typ
		if i > 0 {
			t = storeTypes[(i+c.Idx)%3]
		}
		db, err := e.CreateDB(fmt.Sprintf("c18-%d", i), t, P, []*sim.Peer{O}, idsOf(P, O))
		if err != nil {
			return fw.Verdict{Status: fw.Inconclusive, What: "create: " + err.Error()}
		}
		dbs = append(dbs, db)
	}
	e.W.Settle()
	target := dbs[0]
	sT := target.Stores[P.Idx]
	var legacyClosed int64
	acked := map[string][]string{} // db addr -> hashes acknowledged on P
	var amu sync.Mutex
	for i, db := range dbs {
		for k := 0; k < 3+i; k++ {
			op, err := ApplyOp(bg, db.Stores[P.Idx], honestOp(db.Type, k))
			if err != nil {
				return fw.Verdict{Status: fw.Inconclusive, What: "write: " + err.Error()}
			}
			acked[db.Addr] = append(acked[db.Addr], op.GetEntry().GetHash().String())
		}
	}
	e.W.Settle()

	if moment == "during-load" {
		// a fresh instance that still has to load
		P.Stop()
		e.W.Settle()
		if err := P.Start(); err != nil {
			return fw.Verdict{Status: fw.Inconclusive, What: "restart: " + err.Error()}
		}
		for _, db := range dbs {
			if err := e.OpenOn(db, P); err != nil {
				return fw.Verdict{Status: fw.Inconclusive, What: "reopen: " + err.Error()}
			}
		}
		sT = target.Stores[P.Idx]
	}

	if c.Bool("legacy") {
		// a short-lived subscription on the legacy channel API: the subscriber's context ends while the
		// emitter's dequeuing goroutine is between finding its queue empty and going to sleep. The
		// subscription's goroutines must end and its channel must be closed all the same (the census at
		// the end of the case decides).
		lctx, lcancel := context.WithCancel(bg)
		inHold := make(chan struct{}, 8)
		release := make(chan struct{})
		e.H.SetPoint("legacy.before-wait", func(string, []interface{}) {
			select {
			case inHold <- struct{}{}:
			default:
			}
			select {
			case <-release:
			case <-time.After(100 * time.Millisecond):
			}
		})
		chans := []<-chan events.Event{sT.Subscribe(lctx), sT.Subscribe(lctx)}
		for range chans {
			select {
			case <-inHold:
			case <-time.After(2 * time.Second):
			}
		}
		lcancel()
		time.Sleep(time.Millisecond) // the goroutines that watch the context run now
		close(release)
		e.H.SetPoint("legacy.before-wait", func(string, []interface{}) {})
		for _, ch := range chans {
			go func(ch <-chan events.Event) {
				for range ch {
				}
				atomic.AddInt64(&legacyClosed, 1)
			}(ch)
		}
		v.Count("legacy_subscriptions_cancelled_before_their_dequeuer_slept", int64(len(chans)))
	}

	if moment == "sync-blocked-in-fetch" {
		// an application-issued Sync (its own context, never cancelled) is blocked in a remote block fetch
		e.W.Instant = false
		for k := 0; k < 4; k++ {
			_, _ = ApplyOp(bg, target.Stores[O.Idx], honestOp(target.Type, 6000+k))
		}
		e.W.Settle()
		e.W.DropAll()
		e.W.SetGate(func(ctx context.Context, to, from *sim.Peer, _ cid.Cid) error {
			if to != P {
				return nil
			}
			<-ctx.Done() // the block never arrives
			return ctx.Err()
		})
		_ = sT.Sync(bg, cloneHeads(headsOf(target.Stores[O.Idx])))
		time.Sleep(3 * time.Millisecond)
	}
	// background activity
	stopBG := make(chan struct{})
	var bgwg sync.WaitGroup
	var closedFlag int32
	if moment != "idle" && moment != "sync-blocked-in-fetch" {
		bgwg.Add(2)
		go func() { // local writer on the target
			defer bgwg.Done()
			rng := rand.New(rand.NewSource(c.Seed + 101)) // one generator per goroutine
			if moment == "during-load" {
				return // nothing is written through a store that has not loaded its log (assumption of the properties)
			}
			for i := 0; ; i++ {
				select {
				case <-stopBG:
					return
				default:
				}
				op, err := ApplyOp(bg, sT, honestOp(target.Type, 100+i))
				if err == nil {
					amu.Lock()
					acked[target.Addr] = append(acked[target.Addr], op.GetEntry().GetHash().String())
					amu.Unlock()
				} else if atomic.LoadInt32(&closedFlag) == 1 {
					return
				}
				time.Sleep(time.Duration(rng.Intn(200)) * time.Microsecond)
			}
		}()
		go func() { // remote writer: replication into P
			defer bgwg.Done()
			rng := rand.New(rand.NewSource(c.Seed + 102))
			for i := 0; ; i++ {
				select {
				case <-stopBG:
					return
				default:
				}
				_, _ = ApplyOp(bg, target.Stores[O.Idx], honestOp(target.Type, 5000+i))
				time.Sleep(time.Duration(200+rng.Intn(400)) * time.Microsecond)
			}
		}()
	}

	// the action, triggered at the moment
	doAction := func() error {
		switch action {
		case "close-store":
			return sT.Close()
		case "drop":
			return sT.Drop()
		default:
			if c.Bool("closeerr") {
				// the datastore of one of the databases reports an error when it is closed
				fc.FailNextClose(1)
			}
			if c.Bool("ctxfirst") {
				// the application ends the context it created the instance with, then closes the instance
				P.CancelInstanceContext()
			}
			P.Stop() // closes the instance (Close never returns an error)
			return nil
		}
	}
	var actionRes opResult
	trigger := make(chan struct{}, 1)
	actionDone := make(chan struct{})
	var fired int32
	reached := int64(0)
	pointName := moment
	isPoint := strings.Contains(moment, ".")
	if isPoint {
		e.H.SetPoint(pointName, func(name string, args []interface{}) {
			if len(args) == 0 || !sameStore(args[0], sT) {
				// replicator points carry the replicator, not the store: accept any arrival on P's target by timing
				if !strings.HasPrefix(name, "repl.") {
					return
				}
			}
			if atomic.AddInt64(&reached, 1) < 3 { // let a few pass first
				return
			}
			if atomic.CompareAndSwapInt32(&fired, 0, 1) {
				trigger <- struct{}{}
				select { // hold this goroutine at the point while the closer runs
				case <-actionDone:
				case <-time.After(25 * time.Millisecond):
				}
			}
		})
	}
	go func() {
		rng := rand.New(rand.NewSource(c.Seed + 103))
		switch {
		case isPoint:
			select {
			case <-trigger:
			case <-time.After(3 * time.Second):
			}
		case moment == "during-load":
			go func() { _ = sT.Load(bg, -1) }()
			time.Sleep(time.Duration(rng.Intn(1500)) * time.Microsecond)
		case moment == "random":
			time.Sleep(time.Duration(rng.Intn(4000)) * time.Microsecond)
		}
		actionRes = withWatchdog(action, wd, doAction)
		atomic.StoreInt32(&closedFlag, 1)
		close(actionDone)
	}()
	<-actionDone
	e.H.ClearPoints()
	close(stopBG)
	bgDone := make(chan struct{})
	go func() { bgwg.Wait(); close(bgDone) }()
	select {
	case <-bgDone:
	case <-time.After(wd):
		return c18Hang(v, "background-writer-after-"+action, moment)
	}
	v.Count("moment_arrivals", atomic.LoadInt64(&reached))
	v.Sig = fw.HashSig(nd, action, moment, typ, c.Bool("postdrop"), c.Seed)
	v.NonTrivial = !isPoint || atomic.LoadInt32(&fired) == 1
	if actionRes.hung {
		return c18Hang(v, action, moment)
	}
	if actionRes.err != nil {
		return fw.Verdict{Status: fw.Violated, Key: action + "-error/" + moment, NonTrivial: true, Sig: v.Sig, What: fmt.Sprintf("%s at %s returned %v", action, moment, actionRes.err)}
	}

	lap("action done")
	// post-close operation set on the closed store
	post := []struct {
		name string
		f    func() error
	}{
		{"write", func() error { _, err := ApplyOp(bg, sT, honestOp(target.Type, 9000)); _ = err; return nil }},
		{"read", func() error { _ = ViewOf(target.Type, sT); return nil }},
		{"load", func() error {
			ctx, cancel := context.WithTimeout(bg, 5*time.Second)
			defer cancel()
			_ = sT.Load(ctx, -1)
			return nil
		}},
		{"sync", func() error {
			ctx, cancel := context.WithTimeout(bg, 5*time.Second)
			defer cancel()
			_ = sT.Sync(ctx, cloneHeads(headsOf(target.Stores[O.Idx])))
			return nil
		}},
		{"close-2", func() error { return sT.Close() }},
		{"close-3", func() error { return sT.Close() }},
	}
	postDrop := c.Bool("postdrop")
	if postDrop {
		post = append(post, struct {
			name string
			f    func() error
		}{"drop-after", func() error { _ = sT.Drop(); return nil }})
	}
	for _, p := range post {
		r := withWatchdog(p.name, wd, p.f)
		v.Count("post_close_ops", 1)
		if r.hung {
			return c18Hang(v, p.name+"-after-"+action, moment)
		}
		if strings.HasPrefix(p.name, "close-") && r.err != nil {
			return fw.Verdict{Status: fw.Violated, Key: "repeated-close-error", NonTrivial: true, Sig: v.Sig, What: fmt.Sprintf("%s after %s returned %v", p.name, action, r.err)}
		}
	}
	lap("post ops done")
	e.W.SetGate(nil)
	if action != "close-instance" {
		P.Untrack(sT) // the closed store's buses are no longer accounted for
		e.StableRebase()
	}
	if action == "close-store" && !postDrop {
		// reopen the database, then close the OLD handle again: the new handle must be unaffected
		e.W.WaitIdle(sim.IdleOpts{Watchdog: 5 * time.Second})
		e.W.Instant = false
		if err := e.OpenOn(target, P); err != nil {
			return fw.Verdict{Status: fw.Violated, Key: "reopen-after-close-failed", NonTrivial: true, Sig: v.Sig, What: "database cannot be reopened on the live instance after its store was closed: " + err.Error()}
		}
		sN := target.Stores[P.Idx]
		if r := withWatchdog("load-new-handle", wd, func() error { return sN.Load(bg, -1) }); r.hung {
			return c18Hang(v, "load-new-handle", moment)
		}
		_ = sT.Close()
		_ = sT.Close()
		// heads sent over the direct channel must still reach the reopened store
		op, err := ApplyOp(bg, target.Stores[O.Idx], honestOp(target.Type, 8000))
		if err == nil {
			e.W.Settle()
			e.W.DropAll() // no pubsub announcement: only the exchange on (re)connect delivers it
			e.W.Cut(P, O)
			e.W.Heal(P, O)
			e.W.Flush()
			v.Count("reopened_handle_checks", 1)
			if !logHas(sN, op.GetEntry().GetHash()) {
				if e.W.WaitIdle(sim.IdleOpts{Stable: confirmWindow(), Watchdog: 30 * time.Second}) && !logHas(sN, op.GetEntry().GetHash()) {
					return fw.Verdict{Status: fw.Violated, Key: "closed-handle-affects-reopened-store", NonTrivial: true, Sig: v.Sig,
						What: "after Close, reopen and a repeated Close of the old handle, heads exchanged on reconnect no longer reach the reopened store"}
				}
			}
		}
		sT = sN
		e.W.Instant = true
	}
	e.W.WaitIdle(sim.IdleOpts{Watchdog: 10 * time.Second})

	lap("reopened-handle check done")
	// siblings untouched and writable (store close / drop)
	if action != "close-instance" {
		for _, db := range dbs[1:] {
			s := db.Stores[P.Idx]
			sn := TakeSnap(db.Type, s, P.Idx)
			have := map[string]bool{}
			for _, h := range sn.Order {
				have[h] = true
			}
			for _, h := range acked[db.Addr] {
				if !have[h] {
					return fw.Verdict{Status: fw.Violated, Key: action + "-affected-sibling", NonTrivial: true, Sig: v.Sig, What: fmt.Sprintf("sibling database %s lost entry %s after %s of %s", db.Name, short(h), action, target.Name)}
				}
			}
			op, err := ApplyOp(bg, s, honestOp(db.Type, 7000))
			if err != nil {
				return fw.Verdict{Status: fw.Violated, Key: action + "-affected-sibling", NonTrivial: true, Sig: v.Sig, What: fmt.Sprintf("sibling database %s refuses writes after %s of %s: %v", db.Name, action, target.Name, err)}
			}
			acked[db.Addr] = append(acked[db.Addr], op.GetEntry().GetHash().String())
			v.Count("sibling_checks", 1)
		}
	}

	lap("siblings done")
	// close everything, then the goroutine census
	P.Stop()
	O.Stop()
	var leaked map[string]int
	censusRounds := 500 // x 10 ms; goroutines that are exiting need the scheduler, which a loaded machine grants late
	if raceBuild() {
		censusRounds = 1500
	}
	for i := 0; i < censusRounds; i++ {
		leaked = orbitGoroutines()
		if len(leaked) == 0 {
			break
		}
		time.Sleep(10 * time.Millisecond)
	}
	v.Count("goroutine_censuses", 1)
	v.Count("legacy_channels_closed_after_cancel", atomic.LoadInt64(&legacyClosed))
	v.Count("datastore_close_errors_injected", int64(atomic.LoadInt32(&fc.CloseFailed)))
	if len(leaked) > 0 {
		var sites []string
		for s, n := range leaked {
			sites = append(sites, fmt.Sprintf("%s x%d", s, n))
		}
		sort.Strings(sites)
		site := strings.Fields(sites[0])[0]
		return fw.Verdict{Status: fw.Violated, Key: "goroutine-leak@" + site, NonTrivial: true, Sig: v.Sig,
			What: fmt.Sprintf("after %s at %s and closing every instance, goroutines created by go-orbit-db are still alive after the census window: %s", action, moment, strings.Join(sites, "; "))}
	}

	lap("census done")
	// reopen: acknowledged data still there; dropped database empty
	if err := P.Start(); err != nil {
		return fw.Verdict{Status: fw.Violated, Key: "reopen-failed", NonTrivial: true, Sig: v.Sig, What: "instance cannot be reopened on the directory: " + err.Error()}
	}
	for i, db := range dbs {
		if err := e.OpenOn(db, P); err != nil {
			return fw.Verdict{Status: fw.Violated, Key: "reopen-failed", NonTrivial: true, Sig: v.Sig, What: fmt.Sprintf("database %s cannot be reopened: %v", db.Name, err)}
		}
		s := db.Stores[P.Idx]
		r := withWatchdog("load-after-reopen", wd, func() error { return s.Load(bg, -1) })
		if r.hung {
			return c18Hang(v, "load-after-reopen", moment)
		}
		if r.err != nil {
			return fw.Verdict{Status: fw.Violated, Key: "reopen-load-error", NonTrivial: true, Sig: v.Sig, What: fmt.Sprintf("Load after reopen of %s: %v", db.Name, r.err)}
		}
		sn := TakeSnap(db.Type, s, P.Idx)
		if i == 0 && (action == "drop" || postDrop) {
			v.Count("drop_checks", 1)
			if len(sn.Order) != 0 {
				return fw.Verdict{Status: fw.Violated, Key: "drop-left-data", NonTrivial: true, Sig: v.Sig, What: fmt.Sprintf("dropped database %s reopens with %d entries", db.Name, len(sn.Order))}
			}
			if _, err := os.Stat(filepath.Join(P.Dir, "nonexistent")); err == nil {
				_ = err
			}
			continue
		}
		have := map[string]bool{}
		for _, h := range sn.Order {
			have[h] = true
		}
		amu.Lock()
		want := append([]string{}, acked[db.Addr]...)
		amu.Unlock()
		for _, h := range want {
			if !have[h] {
				return fw.Verdict{Status: fw.Violated, Key: "acknowledged-write-lost-after-" + action, NonTrivial: true, Sig: v.Sig,
					What: fmt.Sprintf("after %s at %s, reopen and Load(-1): acknowledged entry %s of %s is missing (%d of %d present)", action, moment, short(h), db.Name, len(sn.Order), len(want))}
			}
		}
		v.Count("reopen_checks", 1)
	}
	v.Status = fw.Held
	v.Sample = map[string]interface{}{"databases": nd, "action": action, "moment": moment, "type": typ, "moment_arrivals": atomic.LoadInt64(&reached)}
	return v
}

func c18Hang(v fw.Verdict, op, moment string) fw.Verdict {
	buf := make([]byte, 4<<20)
	n := runtime.Stack(buf, true)
	var tr []string
	for _, blk := range strings.Split(string(buf[:n]), "\n\n") {
		if strings.Contains(blk, "berty.tech/go-orbit-db/") && !strings.Contains(blk, "verifharness/fw") {
			lines := strings.Split(blk, "\n")
			if len(lines) > 14 {
				lines = lines[:14]
			}
			tr = append(tr, strings.Join(lines, " | "))
		}
		if len(tr) > 12 {
			break
		}
	}
	return fw.Verdict{Status: fw.Violated, Key: "hang@" + op, NonTrivial: true, Sig: v.Sig, What: fmt.Sprintf("%s (moment %s) did not return within the watchdog", op, moment), Trace: tr}
}
