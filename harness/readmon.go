package main

// Judged concurrent readers (C06-C08, "at every moment"): an application thread reads a replica all the
// time while writes and merges happen. What it sees must only ever move FORWARD in the log's total order:
//   - event log: an earlier listing is a subsequence of every later one (append-only, stable order);
//   - key-value / document store: the state shown for a key is decided by the last entry on that key in
//     the total order among the entries held; the set held only grows (no restart in these workloads) and
//     the order is fixed, so the deciding entry never moves backwards. After the run each reader's
//     sequence of distinct states per key must be explainable by entries of non-decreasing rank.

import (
	"encoding/json"
	"fmt"
	"sync"

	"berty.tech/go-orbit-db/iface"
)

const absentState = "\x00absent"

type readMon struct {
	typ   string
	peer  int
	mu    sync.Mutex
	store iface.Store
	seq   map[string][]string // key -> successive distinct states
	list  []string            // event log: last listing (hashes)
	vio   *Violation
	Trans int
	Reads int
}

func canonJSON(b []byte) string {
	var x interface{}
	if json.Unmarshal(b, &x) != nil {
		return "UNPARSEABLE:" + fmt.Sprintf("%x", b)
	}
	o, _ := json.Marshal(x)
	return string(o)
}

func (m *readMon) observe(st iface.Store) {
	m.mu.Lock()
	defer m.mu.Unlock()
	if m.vio != nil {
		return
	}
	if m.store != st { // another handle (reopened): what it holds starts again
		m.store, m.seq, m.list = st, map[string][]string{}, nil
	}
	m.Reads++
	cur := map[string]string{}
	switch s := st.(type) {
	case iface.EventLogStore:
		n := -1
		ops, err := s.List(bg, &iface.StreamOptions{Amount: &n})
		if err != nil {
			return
		}
		l := make([]string, 0, len(ops))
		for _, op := range ops {
			l = append(l, op.GetEntry().GetHash().String())
		}
		if !eqStrings(l, m.list) {
			m.Trans++
			if !IsSubsequence(m.list, l) {
				m.vio = &Violation{"reader-listing-went-backwards", fmt.Sprintf("a reader of p%d first listed %s and later %s: the earlier listing is not a subsequence of the later one", m.peer, shorts(m.list), shorts(l))}
			}
			m.list = l
		}
		return
	case iface.KeyValueStore:
		for k, v := range s.All() {
			cur[k] = fmt.Sprintf("%x", v)
		}
	case iface.DocumentStore:
		docs, err := s.Query(bg, func(interface{}) (bool, error) { return true, nil })
		if err != nil {
			return
		}
		for _, d := range docs {
			dm, ok := d.(map[string]interface{})
			if !ok {
				continue
			}
			id, _ := dm["_id"].(string)
			b, _ := json.Marshal(d)
			if _, dup := cur[id]; dup {
				m.vio = &Violation{"reader-two-documents-one-key", fmt.Sprintf("a reader of p%d got two documents with key %q from one query", m.peer, id)}
				return
			}
			cur[id] = string(b)
		}
	}
	for k := range m.seq {
		if _, ok := cur[k]; !ok {
			cur[k] = absentState
		}
	}
	for k, v := range cur {
		sq := m.seq[k]
		if len(sq) == 0 || sq[len(sq)-1] != v {
			m.seq[k] = append(sq, v)
			m.Trans++
		}
	}
}

// judge: every per-key sequence of states must be producible by entries of increasing rank in the total order.
func (m *readMon) judge(r *Runner) *Violation {
	m.mu.Lock()
	defer m.mu.Unlock()
	if m.vio != nil || m.typ == tEvent || r == nil {
		return m.vio
	}
	r.mu.Lock()
	all := make([]string, 0, len(r.Universe))
	for h := range r.Universe {
		all = append(all, h)
	}
	uni := r.Universe
	r.mu.Unlock()
	if ClockCollision(uni, all) {
		return nil
	}
	order := ModelOrder(uni, all)
	// key -> state -> ranks of the entries that produce this state
	prod := map[string]map[string][]int{}
	add := func(k, state string, rank int) {
		if prod[k] == nil {
			prod[k] = map[string][]int{}
		}
		prod[k][state] = append(prod[k][state], rank)
	}
	for rank, h := range order {
		o, err := parseOp(uni[h].Payload)
		if err != nil {
			continue
		}
		val := func(b []byte) string {
			if m.typ == tKV {
				return fmt.Sprintf("%x", b)
			}
			return canonJSON(b)
		}
		switch {
		case o.Op == "PUTALL":
			for _, d := range o.Docs {
				add(d.Key, val(d.Value), rank)
			}
		case o.Key == nil:
		case o.Op == "PUT":
			add(*o.Key, val(o.Value), rank)
		case o.Op == "DEL":
			add(*o.Key, absentState, rank)
		}
	}
	for k, sq := range m.seq {
		lo := -1 // rank of the entry explaining the previous state; -1 = no entry on this key yet
		for i, state := range sq {
			if i == 0 && state == absentState {
				continue // nothing on this key yet
			}
			next := -1
			for _, rk := range prod[k][state] { // ranks ascend
				if rk > lo {
					next = rk
					break
				}
			}
			r.V.Count("reader_state_transitions_judged", 1)
			if next < 0 {
				if len(prod[k][state]) == 0 {
					return &Violation{"reader-saw-state-no-entry-produces", fmt.Sprintf("a reader of p%d saw key %q in a state (%.80q) that no entry ever written produces", m.peer, k, state)}
				}
				return &Violation{"reader-saw-older-state-after-newer", fmt.Sprintf("a reader of p%d saw key %q go through %d states; state #%d (%.80q) is only produced by entries that sort before the entry that explains the state seen just before it: the visible state moved backwards in the log's total order", m.peer, k, len(sq), i, state)}
			}
			lo = next
		}
	}
	return nil
}
