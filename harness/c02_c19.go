package main

import (
	"berty.tech/go-ipfs-log/entry"
	"context"
	"fmt"
	"math/rand"
	"sort"
	"strings"
	"sync"
	"time"

	"berty.tech/go-orbit-db/iface"
	cid "github.com/ipfs/go-cid"

	"verifharness/fw"
	"verifharness/sim"
)

func init() {
	fw.Register(&fw.Property{
		ID:    "C02",
		Level: "exploration",
		Rule: "cases = PRNG fault scripts on 2-4 replicas (all writers, on-disk directories): writes interleaved with link cuts/heals, dropped / duplicated / reordered announcements and direct-channel exchanges, peer restarts (close, reopen, Load(-1)), writes while isolated; plus scripted fault families in their sharpest form (exchange on reconnect lost and peers re-join with unchanged heads; receiver restarts before it merged what it received; heads learnt but the partition starts before the blocks could be fetched and lasts 0 / 1 / 3 / 12 s of real time); then the final phase of the quantifier: writes stop, every link is healed and bounced so each side sees the other join, everything in flight is delivered, no more faults. Verdict by state: held when every replica holds exactly the acknowledged writes and all replicas show the same state; violated only when the world is provably at rest (pending counter 0, pool empty, replicators idle, generation and fingerprints unchanged for the confirmation window) without that. " +
			"distinct = hash(fault script); non-trivial = >= 2 writers and >= 1 announcement lost or >= 1 cut or restart",
		Assumptions: []string{"liveness restated as bounded progress against a state-defined rest condition", "a restart is a clean close; crashes are C05", "blocks held by a connected peer are fetchable (simulated block exchange)"},
		Cases:       c02Cases,
		Run:         c02Run,
		MinDistinct: map[string]int{"quick": 15, "thorough": 120},
		Batch:       6,
		CaseTimeout: 240 * time.Second,
		Explain:     "oracle: after the final phase every replica's entry set equals the set of acknowledged writes; then C01's equal-state oracle and the replay model on the result.",
	})
	fw.Register(&fw.Property{
		ID:    "C19",
		Level: "exploration",
		Rule: "cases = PRNG histories on instances holding one database: local writes, loads after restart, snapshot loads and replication of single- and multi-writer logs, including replicas that already hold local entries when a longer foreign branch arrives, and local writes whose local-heads cache write fails (injected datastore failure). Every SetProgress/SetMax transition is observed through the replinfo hooks (old -> new, under the lock); (progress, max, len, maxClock) are read at every rest point. After every history two announcements are injected that carry a writer's new entry (its honest announcement dropped) together with a non-writer's head naming it as parent, whose Lamport time lies 5-25 above the sum of the newest time and the replica's entry count; the monitors keep running and the rest oracle is applied afterwards. " +
			"distinct = hash(step script); non-trivial = >= 2 writers, >= 20 transitions observed and >= 1 replica merged a foreign branch while holding local entries",
		Assumptions: []string{"one database per instance (cross-database effects are C09)"},
		Cases:       c19Cases,
		Run:         c19Run,
		MinDistinct: map[string]int{"quick": 15, "thorough": 120},
		Batch:       8,
		Explain:     "oracle: no observed transition decreases progress or max while the store is open; at rest with a log closed under next: progress == max and maxClock <= max <= len.",
	})
}

func c02Cases(tier string, seed int64) []fw.Case {
	n := 30
	if tier == "thorough" {
		n = 300
	}
	rng := rand.New(rand.NewSource(seed*15485863 + 2))
	var out []fw.Case
	for i := 0; i < n; i++ {
		out = append(out, fw.Case{Idx: i, Seed: rng.Int63(), P: map[string]interface{}{
			"type":  storeTypes[i%3],
			"peers": 2 + rng.Intn(3),
			"steps": 15 + rng.Intn(40),
		}})
	}
	// scripted fault families (the quantifier's named faults, each in its sharpest form)
	idx := len(out)
	type fam struct {
		name string
		t    int // partition duration in ms (family fetch-blocked)
	}
	fams := []fam{{"lost-exchange-rejoin", 0}, {"lost-exchange-rejoin", 0}, {"lost-exchange-rejoin", 0}, {"receiver-restart-before-merge", 0}, {"receiver-restart-before-merge", 0}, {"fetch-blocked-by-partition", 0}, {"fetch-blocked-by-partition", 1000}, {"fetch-blocked-by-partition", 12000}, {"many-failed-fetches", 0}}
	reps := 1
	if tier == "thorough" {
		reps = 6
	}
	for rep := 0; rep < reps; rep++ {
		for _, f := range fams {
			t := f.t
			if rep > 0 && t >= 12000 && rep%3 != 0 {
				t = 3000
			}
			out = append(out, fw.Case{Idx: idx, Seed: rng.Int63(), Kind: "family", P: map[string]interface{}{
				"family": f.name, "t": t, "type": storeTypes[idx%3], "peers": 2 + (idx/3)%2, "k": 2 + rng.Intn(5), "variant": rng.Intn(4),
			}})
			idx++
		}
	}
	return out
}

// c02Family runs one scripted fault family followed by the final phase.
func c02Family(c fw.Case) fw.Verdict {
	e := NewEnv()
	defer e.Close()
	rng := rand.New(rand.NewSource(c.Seed))
	famName, np, k, variant := c.Str("family", "lost-exchange-rejoin"), c.Int("peers", 2), c.Int("k", 3), c.Int("variant", 0)
	r := &Runner{E: e, Rng: rng, Cfg: ScenCfg{Type: c.Str("type", tKV), NPeers: np, Keys: []string{"a", "b", "c"}, OnDisk: true}}
	if err := r.Setup(); err != nil {
		return fw.Verdict{Status: fw.Inconclusive, What: "setup: " + err.Error()}
	}
	w := e.W
	A, B := r.Peers[0], r.Peers[1]
	w.Flush()
	steps := []Step{{K: famName}}
	writeK := func(i int) {
		for j := 0; j < k; j++ {
			_ = r.Write(i, r.GenOp(rng))
		}
		r.settle()
	}
	switch famName {
	case "lost-exchange-rejoin":
		// B misses A's writes (partition), the exchange on reconnect is lost, then the peers re-join with unchanged heads
		w.Cut(A, B)
		r.Cuts++
		writeK(0)
		if variant%2 == 1 {
			writeK(1) // both sides have news
		}
		w.Heal(A, B)
		r.settle()
		r.Lost += w.DropAll() // every exchange / announcement in flight is lost
		r.logf("dropped everything in flight after the heal")
		if variant >= 2 {
			// a flap without traffic in between
			w.Cut(A, B)
			w.Heal(A, B)
			r.settle()
			r.Lost += w.DropAll()
		}
	case "receiver-restart-before-merge":
		// B receives A's heads but restarts before it has fetched / merged them
		w.Cut(A, B)
		writeK(0)
		w.Heal(A, B)
		r.settle()
		held := make(chan struct{})
		w.SetGate(func(ctx context.Context, to, from *sim.Peer, _ cid.Cid) error {
			if to != B {
				return nil
			}
			select {
			case <-held:
			case <-ctx.Done():
				return ctx.Err()
			}
			return nil
		})
		w.DeliverAll()
		time.Sleep(2 * time.Millisecond)
		B.Stop() // closes the instance while the fetch is pending
		close(held)
		w.SetGate(nil)
		r.settle()
		if err := B.Start(); err == nil {
			if err := e.OpenOn(r.DB, B); err == nil {
				_ = r.store(1).Load(bg, -1)
			}
		}
		r.Restarts++
		r.settle()
		r.Lost += w.DropAll()
	case "many-failed-fetches":
		// B hears of 40 writes of A one by one while none of the blocks can be fetched (announcements
		// arrive, block requests fail): 40 failed fetches on one open store, more than it has fetch slots
		w.SetGate(func(ctx context.Context, to, from *sim.Peer, _ cid.Cid) error {
			if to != B {
				return nil
			}
			return fmt.Errorf("sim: injected fetch failure")
		})
		for j := 0; j < 40 && !r.watchdog; j++ {
			// the announcement of the first write is lost: the parent of the announced head is not local
			_ = r.Write(0, r.GenOp(rng))
			r.settle()
			r.Lost += w.DropAll()
			_ = r.Write(0, r.GenOp(rng))
			r.settle()
			w.DeliverAll()
			r.settle()
		}
		w.SetGate(nil)
		r.FaultyFetches += 40
	case "fetch-blocked-by-partition":
		// B learns A's heads, but the partition starts before it could fetch the blocks and lasts T
		writeK(0)
		r.Lost += 0
		held := make(chan struct{})
		w.SetGate(func(ctx context.Context, to, from *sim.Peer, _ cid.Cid) error {
			if to != B {
				return nil
			}
			select {
			case <-held:
			case <-ctx.Done():
				return ctx.Err()
			}
			return nil
		})
		w.DeliverAll()
		time.Sleep(2 * time.Millisecond)
		w.Cut(A, B)
		if np > 2 {
			w.Cut(r.Peers[2], B)
		}
		r.Cuts++
		close(held)
		w.SetGate(nil)
		time.Sleep(time.Duration(c.Int("t", 0)) * time.Millisecond) // the partition lasts T (fetches are blocked, not at rest)
		r.logf("partition lasted %d ms", c.Int("t", 0))
	}
	if r.failed == nil {
		r.logf("final phase: heal+bounce all links, deliver everything")
		converged := !r.watchdog && r.Converge()
		if !converged && w.Wedged(confirmWindow()) {
			// rest is never reached and nothing is running that could reach it
			var sts []string
			for i := range r.Peers {
				if st := r.store(i); st != nil {
					if vs, ok := replState(st); ok {
						sts = append(sts, fmt.Sprintf("p%d %s", i, vs))
					}
				}
			}
			r.watchdog = false
			r.fail("wedged-at-rest/"+famName, fmt.Sprintf("after %s and the final phase the replicas never come to rest although nothing runs, no fetch is parked and nothing is in flight: pending %v; replicators: %s", famName, e.H.Detail(), strings.Join(sts, "; ")))
		}
		if converged {
			want := append([]string{}, r.Acked...)
			sort.Strings(want)
			ok := func() (bool, string) {
				for i := range r.Peers {
					var got []string
					for _, en := range r.store(i).OpLog().GetEntries().Slice() {
						got = append(got, en.GetHash().String())
					}
					sort.Strings(got)
					if !eqStrings(got, want) {
						return false, fmt.Sprintf("p%d holds %d entries, %d acknowledged writes exist", i, len(got), len(want))
					}
				}
				return true, ""
			}
			good, why := ok()
			if !good {
				if !r.confirmRest() {
					r.watchdog = true
				} else if good, why = ok(); !good {
					r.fail("not-converged-at-rest/"+famName, "after "+famName+", the final phase and at rest: "+why)
				}
			}
			if r.failed == nil && !r.watchdog {
				r.V.Count("replicas_converged", int64(len(r.Peers)))
				r.Checks = []func(*Runner, []*Snap, string) *Violation{oracleSameSet, oracleModel}
				r.Checkpoint("final")
			}
		}
	}
	steps = append(steps, Step{K: fmt.Sprintf("variant%d/t%d/k%d/p%d", variant, c.Int("t", 0), k, np)})
	return r.finish(steps, nil, func() bool { return len(r.Acked) > 0 })
}

func (r *Runner) fingerprint() string {
	s := ""
	for i, p := range r.Peers {
		if p.Running() && r.store(i) != nil {
			st := r.store(i)
			s += fmt.Sprintf("%d:%d:%d:%d|", i, st.OpLog().Len(), st.ReplicationStatus().GetProgress(), st.ReplicationStatus().GetMax())
		}
	}
	return s
}

// confirmRest is the §4.3 negative-verdict window.
func (r *Runner) confirmRest() bool {
	d := 2 * time.Second
	if raceBuild() {
		d = 6 * time.Second
	}
	return r.E.W.WaitIdle(sim.IdleOpts{Stable: d, Watchdog: 90 * time.Second, PoolMustBeEmpty: true, Fingerprint: r.fingerprint})
}

func c02Run(c fw.Case) fw.Verdict {
	if c.Kind == "family" {
		return c02Family(c)
	}
	e := NewEnv()
	defer e.Close()
	rng := rand.New(rand.NewSource(c.Seed))
	np := c.Int("peers", 3)
	r := &Runner{E: e, Rng: rng, Cfg: ScenCfg{
		Type: c.Str("type", tKV), NPeers: np, NSteps: c.Int("steps", 20), Keys: []string{"a", "b", "c"}, OnDisk: true,
		WWrite: 40, WDeliver: 18, WDeliverAll: 3, WDrop: 12, WDup: 6, WBurst: 6, WCut: 7, WHeal: 5, WRestart: 5, WConc: 4,
		CheckEvery: 8,
	}}
	r.Checks = []func(*Runner, []*Snap, string) *Violation{oracleModel}
	if err := r.Setup(); err != nil {
		return fw.Verdict{Status: fw.Inconclusive, What: "setup: " + err.Error()}
	}
	steps := r.GenSteps(rng)
	r.Exec(steps)
	if r.failed == nil && !r.watchdog {
		// final phase
		for i, p := range r.Peers {
			if !p.Running() {
				if err := r.Restart(i); err != nil {
					r.fail("restart-failed", err.Error())
				}
			}
		}
		r.logf("final phase: heal+bounce all links, deliver everything")
		w, famName := e.W, "random-history"
		converged := r.Converge()
		if !converged && w.Wedged(confirmWindow()) {
			// rest is never reached and nothing is running that could reach it
			var sts []string
			for i := range r.Peers {
				if st := r.store(i); st != nil {
					if vs, ok := replState(st); ok {
						sts = append(sts, fmt.Sprintf("p%d %s", i, vs))
					}
				}
			}
			r.watchdog = false
			r.fail("wedged-at-rest/"+famName, fmt.Sprintf("after %s and the final phase the replicas never come to rest although nothing runs, no fetch is parked and nothing is in flight: pending %v; replicators: %s", famName, e.H.Detail(), strings.Join(sts, "; ")))
		}
		if converged {
			want := append([]string{}, r.Acked...)
			sort.Strings(want)
			ok := func() (bool, string) {
				for i := range r.Peers {
					var got []string
					for _, en := range r.store(i).OpLog().GetEntries().Slice() {
						got = append(got, en.GetHash().String())
					}
					sort.Strings(got)
					if !eqStrings(got, want) {
						return false, fmt.Sprintf("p%d holds %d entries, %d acknowledged writes exist", i, len(got), len(want))
					}
				}
				return true, ""
			}
			good, why := ok()
			if !good {
				// negative verdicts need rest + stability + confirmation
				if !r.confirmRest() {
					r.watchdog = true
				} else if good, why = ok(); !good {
					r.fail("not-converged-at-rest", "after the final phase and at rest: "+why)
				}
			}
			if r.failed == nil && !r.watchdog {
				r.V.Count("replicas_converged", int64(len(r.Peers)))
				r.Checks = []func(*Runner, []*Snap, string) *Violation{oracleSameSet, oracleModel}
				r.Checkpoint("final")
			}
		}
	}
	return r.finish(steps, nil, func() bool {
		writers := map[int]bool{}
		for _, w := range r.WriterOf {
			writers[w] = true
		}
		return len(writers) >= 2 && (r.Lost > 0 || r.Cuts > 0 || r.Restarts > 0)
	})
}

// ---------------- C19 ----------------

func c19Cases(tier string, seed int64) []fw.Case {
	n := 45
	if tier == "thorough" {
		n = 400
	}
	rng := rand.New(rand.NewSource(seed*32452843 + 19))
	var out []fw.Case
	for i := 0; i < n; i++ {
		out = append(out, fw.Case{Idx: i, Seed: rng.Int63(), P: map[string]interface{}{
			"type":    storeTypes[i%3],
			"peers":   2 + rng.Intn(3),
			"writers": 1 + rng.Intn(3),
			"steps":   10 + rng.Intn(41),
			"ondisk":  i%2 == 0,
		}})
	}
	return out
}

type replMonitor struct {
	mu          sync.Mutex
	transitions int
	first       *Violation
	r           *Runner
}

func (m *replMonitor) observe(name string, args []interface{}) {
	if name != "replinfo.progress" && name != "replinfo.max" {
		return
	}
	old, _ := args[1].(int)
	nw, _ := args[2].(int)
	m.mu.Lock()
	m.transitions++
	if nw < old && m.first == nil {
		who := "?"
		for i, p := range m.r.Peers {
			for _, s := range p.Stores() {
				if interface{}(s.ReplicationStatus()) == args[0] {
					who = fmt.Sprintf("p%d", i)
				}
			}
		}
		what := "progress"
		key := "progress-regress"
		if name == "replinfo.max" {
			what = "max"
			key = "max-regress"
		}
		m.first = &Violation{key, fmt.Sprintf("replication %s of %s went from %d to %d while the store was open", what, who, old, nw)}
	}
	m.mu.Unlock()
}

func oracleReplAtRest(r *Runner, snaps []*Snap, label string) *Violation {
	for _, s := range snaps {
		closed, _ := ClosedUnderNext(s.Entries, s.Order)
		if !closed || len(s.InLog) != len(s.Order) {
			continue
		}
		r.V.Count("rest_status_checks", 1)
		maxClock := 0
		for _, h := range s.Order {
			if t := s.Entries[h].Time; t > maxClock {
				maxClock = t
			}
		}
		n := len(s.Order)
		if s.Progress != s.Max {
			return &Violation{"progress-not-max-at-rest", fmt.Sprintf("p%d at rest with a complete log of %d entries: progress=%d max=%d", s.Peer, n, s.Progress, s.Max)}
		}
		if s.Max < maxClock || s.Max > n {
			// max may legitimately exceed len only if ... never: clocks <= number of entries
			return &Violation{"max-out-of-range-at-rest", fmt.Sprintf("p%d at rest: max=%d not in [maxClock=%d, len=%d]", s.Peer, s.Max, maxClock, n)}
		}
	}
	return nil
}

// c19RefusedMix: a writer's new entry is announced to another replica in ONE message together with a
// head by an identity without write access whose Lamport time lies far above the replica's entry count
// (the refused head names the valid one as its parent). The refused head must leave no trace in the
// replication status: the transition monitor keeps running and the rest oracle is applied afterwards.
func c19RefusedMix(r *Runner, rng *rand.Rand) int {
	A, err := NewAdv(r.E.W, "mallory")
	if err != nil {
		return 0
	}
	n := 0
	for round := 0; round < 2; round++ {
		ws := r.writers()
		wi := ws[rng.Intn(len(ws))]
		ri := (wi + 1 + rng.Intn(len(r.Peers)-1)) % len(r.Peers)
		W, R := r.Peers[wi], r.Peers[ri]
		if !W.Running() || !R.Running() || r.store(wi) == nil || r.store(ri) == nil {
			continue
		}
		if err := r.Write(wi, r.GenOp(rng)); err != nil {
			continue
		}
		r.settle()
		r.E.W.DropAll() // the honest announcement of that write is lost: only the mixed message carries it
		var list []*entry.Entry
		var next []cid.Cid
		maxT := 0
		for _, h := range headsOf(r.store(wi)) {
			he := h.Copy().(*entry.Entry)
			list = append(list, he)
			next = append(next, he.Hash)
			if he.Clock.Time > maxT {
				maxT = he.Clock.Time
			}
		}
		bad, err := A.Forge(fNonWriter, r.DB.Addr, opPayload(r.Cfg.Type, 7000+round, "x"), next, nil, maxT+r.store(ri).OpLog().Len()+5+rng.Intn(20), nil)
		if err != nil {
			continue
		}
		if rng.Intn(2) == 0 {
			list = append([]*entry.Entry{bad}, list...)
		} else {
			list = append(list, bad)
		}
		r.logf("refused-mix: p%d <- [%d heads incl. a non-writer's head at time %d]", ri, len(list), bad.Clock.Time)
		if r.E.W.InjectPub(W, R, r.DB.Addr, HeadsMsg(r.DB.Addr, list...)) {
			n++
		}
		if !r.settle() {
			return n
		}
		r.Checkpoint(fmt.Sprintf("refused-mix-%d", round))
		if r.failed != nil {
			return n
		}
	}
	if r.Converge() {
		r.Checkpoint("converged-after-refused-mix")
	}
	return n
}

func c19Run(c fw.Case) fw.Verdict {
	e := NewEnv()
	defer e.Close()
	rng := rand.New(rand.NewSource(c.Seed))
	np := c.Int("peers", 3)
	nw := c.Int("writers", 2)
	if nw > np {
		nw = np
	}
	wr := make([]int, nw)
	for i := range wr {
		wr[i] = i
	}
	r := &Runner{E: e, Rng: rng, Cfg: ScenCfg{
		Type: c.Str("type", tKV), NPeers: np, Writers: wr, NSteps: c.Int("steps", 20), Keys: []string{"a", "b", "c"}, OnDisk: c.Bool("ondisk"),
		WWrite: 45, WDeliver: 22, WDeliverAll: 4, WDrop: 6, WDup: 4, WBurst: 6, WSync: 4, WConc: 8, WSnapshot: 7, WWriteMid: 5, SnapFresh: true,
		CheckEvery: 1,
	}}
	if r.Cfg.OnDisk {
		r.Cfg.WRestart = 4
	}
	// a datastore failure on the local-heads write, now and then: the write call fails, the status must stay sound
	caches := map[int]*faultCache{}
	r.PeerOpts = func(i int, o *sim.PeerOpts) {
		caches[i] = newFaultCache()
		o.Cache = caches[i]
	}
	frng := rand.New(rand.NewSource(c.Seed + 3))
	r.OnStep = func(si int, st Step) {
		if st.K == "w" && frng.Intn(7) == 0 {
			if fc := caches[st.A]; fc != nil {
				fc.Arm("/_localHeads")
			}
		}
	}
	mon := &replMonitor{r: r}
	e.H.AddObserver(mon.observe)
	mixed := 0
	r.Checks = []func(*Runner, []*Snap, string) *Violation{
		func(r *Runner, snaps []*Snap, label string) *Violation {
			mon.mu.Lock()
			defer mon.mu.Unlock()
			return mon.first
		},
		oracleReplAtRest,
		func(r *Runner, snaps []*Snap, label string) *Violation {
			for _, s := range snaps {
				authors := map[string]bool{}
				for _, h := range s.Order {
					authors[s.Entries[h].Author] = true
				}
				if len(authors) >= 2 {
					mixed++
				}
			}
			return nil
		},
	}
	if err := r.Setup(); err != nil {
		return fw.Verdict{Status: fw.Inconclusive, What: "setup: " + err.Error()}
	}
	steps := r.GenSteps(rng)
	r.Exec(steps)
	if r.failed == nil && !r.watchdog && r.Converge() {
		r.Checkpoint("converged")
	}
	refusedMix := 0
	if r.failed == nil && !r.watchdog {
		refusedMix = c19RefusedMix(r, rng)
	}
	r.V.Count("announcements_mixing_a_refused_head_with_a_new_valid_one", int64(refusedMix))
	mon.mu.Lock()
	tr := mon.transitions
	mon.mu.Unlock()
	inj := 0
	for _, fc := range caches {
		inj += int(fc.Injects)
	}
	r.V.Count("datastore_failures_injected", int64(inj))
	r.V.Count("snapshot_loads_into_live_store", int64(r.SnapLoads))
	r.V.Count("snapshot_only_loads_after_restart", int64(r.SnapFreshLoads))
	r.V.Count("local_writes_in_the_middle_of_a_replication", int64(r.MidWrites))
	r.V.Count("status_transitions_observed", int64(tr))
	return r.finish(steps, nil, func() bool {
		writers := map[int]bool{}
		for _, w := range r.WriterOf {
			writers[w] = true
		}
		return len(writers) >= 2 && tr >= 20 && mixed > 0
	})
}

var _ iface.Store
