package main

import (
	"context"
	"fmt"
	"math/rand"
	"sort"
	"strings"
	"sync"
	"time"

	"berty.tech/go-orbit-db/iface"
	"berty.tech/go-orbit-db/stores/basestore"
	cid "github.com/ipfs/go-cid"

	"verifharness/fw"
	"verifharness/sim"
)

func init() {
	fw.Register(&fw.Property{
		ID:    "C13",
		Level: "exploration",
		Rule: "ENUMERATED size classes x log shapes: shape {empty, chain, chain of only big entries (snapshot spans several 256 KiB UnixFS chunks), fork (2 concurrent writers), 3 writers, fork / 3 writers whose heads are ALL medium-sized (8-27 KiB each, so that two or three heads together cross the 64 KiB header limit while every single entry is below it), containing replicated entries, replication in progress (remote fetches held by the gate so the replicator queue is non-empty at save time), replication in progress whose missing entries stay unreachable afterwards (partition), local writes and merges landing while SaveSnapshot runs, a second handle of the database saving after the first handle (which shares its cache) was closed} x largest payload {0, 1, 1 KiB, 27/36/37/47/48/49 KiB (entry JSON around 65535 bytes after one or two base64 layers), 60 KiB, ~64 KiB, 70 KiB, 200 KiB, 300 KiB; jittered by +-300 bytes in the thorough tier} x store type, with kubo's real UnixFS chunker/reader. SaveSnapshot is called on the live store; when it returns nil a FRESH instance on the same directory calls LoadFromSnapshot (not Load). " +
			"distinct = (shape, size class, store type, entries); non-trivial = log non-empty or shape is 'empty' (the empty log is a named case), and SaveSnapshot returned (error or nil) without dying",
		Assumptions: []string{"the snapshot is reloaded by the same peer (its blocks are local)", "entries still being replicated at save time may or may not be in the reloaded state; everything in the log at save time must be"},
		Cases:       c13Cases,
		Run:         c13Run,
		MinDistinct: map[string]int{"quick": 40, "thorough": 200},
		Batch:       6,
		CaseTimeout: 180 * time.Second,
		Explain:     "oracle: SaveSnapshot error => nothing further required (counted as refused); nil => LoadFromSnapshot on a fresh instance succeeds and entries, heads and view equal those at save time (superset allowed only for entries that were in the replicator queue); neither call panics (process survival is checked by the parent).",
	})
}

var c13Shapes = []string{"empty", "chain", "chain-all-big", "fork", "three-writers", "replicated", "in-progress", "in-progress-then-partition", "writes-during-save", "sibling-closed", "fork-heads-big", "three-writers-heads-big"}

// sizes of the shapes whose HEADS are all big: two or three medium heads together cross the 64 KiB header limit
var c13HeadSizes = []int{8 * 1024, 11 * 1024, 12*1024 + 300, 13 * 1024, 17 * 1024, 18*1024 + 400, 19 * 1024, 21 * 1024, 27 * 1024}
var c13Sizes = []int{0, 1, 1024, 27 * 1024, 36 * 1024, 37 * 1024, 47 * 1024, 48 * 1024, 49 * 1024, 60 * 1024, 65535 - 300, 65535, 70 * 1024, 200 * 1024, 300 * 1024}

func c13Cases(tier string, seed int64) []fw.Case {
	var out []fw.Case
	rng := rand.New(rand.NewSource(seed*373587883 + 13))
	reps := 1
	if tier == "thorough" {
		reps = 4
	}
	idx := 0
	for rep := 0; rep < reps; rep++ {
		for si, shape := range c13Shapes {
			sizes := c13Sizes
			if strings.HasSuffix(shape, "-heads-big") {
				sizes = c13HeadSizes
			}
			for zi, size := range sizes {
				if shape == "empty" && zi > 0 {
					continue
				}
				if shape == "sibling-closed" && zi >= 4 {
					continue // the payload size is irrelevant here
				}
				if shape == "writes-during-save" && zi >= 8 {
					continue // the payload size is irrelevant here: 8 cases with small payloads and a long log
				}
				if shape == "chain-all-big" && (size < 1024 || size > 61000) {
					continue // every entry is big: the snapshot spans several UnixFS chunks
				}
				typ := storeTypes[(si+zi+rep)%3]
				sz := size
				if rep > 0 && size > 1024 {
					sz = size + rng.Intn(600) - 300
				}
				out = append(out, fw.Case{Idx: idx, Seed: rng.Int63(), P: map[string]interface{}{"shape": shape, "size": sz, "type": typ, "n": 2 + rng.Intn(6)}})
				idx++
			}
		}
	}
	return out
}

func bigOp(typ string, n, size int) Op {
	val := make([]byte, size)
	for i := range val {
		val[i] = byte('a' + (i+n)%26)
	}
	switch typ {
	case tEvent:
		return Op{Kind: "add", Val: val}
	case tKV:
		return Op{Kind: "put", Key: fmt.Sprintf("k%d", n%3), Val: val}
	default:
		return Op{Kind: "put", Key: fmt.Sprintf("d%d", n%3), Docs: []Doc{{ID: fmt.Sprintf("d%d", n%3), N: n, Tag: string(val)}}}
	}
}

func c13Run(c fw.Case) fw.Verdict {
	e := NewEnv()
	defer e.Close()
	v := fw.Verdict{}
	rng := rand.New(rand.NewSource(c.Seed))
	shape, size, typ, n := c.Str("shape", "chain"), c.Int("size", 0), c.Str("type", tKV), c.Int("n", 3)
	P, err := e.W.AddPeer(sim.PeerOpts{OnDisk: true})
	if err != nil {
		return fw.Verdict{Status: fw.Inconclusive, What: err.Error()}
	}
	var others []*sim.Peer
	nOthers := map[string]int{"sibling-closed": 0, "in-progress-then-partition": 1, "writes-during-save": 1, "empty": 0, "chain": 0, "chain-all-big": 0, "fork": 1, "three-writers": 2, "fork-heads-big": 1, "three-writers-heads-big": 2, "replicated": 1, "in-progress": 1}[shape]
	for i := 0; i < nOthers; i++ {
		o, err := e.W.AddPeer(sim.PeerOpts{})
		if err != nil {
			return fw.Verdict{Status: fw.Inconclusive, What: err.Error()}
		}
		others = append(others, o)
	}
	db, err := e.CreateDB("c13", typ, P, others, idsOf(append([]*sim.Peer{P}, others...)...))
	if err != nil {
		return fw.Verdict{Status: fw.Inconclusive, What: "create: " + err.Error()}
	}
	sP := db.Stores[P.Idx]
	e.W.Flush()
	write := func(s iface.Store, k int, sz int) error {
		_, err := ApplyOp(bg, s, bigOp(typ, k, sz))
		return err
	}
	bigAt := rng.Intn(maxInt(n, 1))
	szOf := func(k int) int {
		if k == bigAt {
			return size
		}
		return rng.Intn(40)
	}
	var held []chan struct{}
	switch shape {
	case "empty":
	case "chain-all-big":
		for k := 0; k < n+6; k++ {
			if err := write(sP, k, size-rng.Intn(50)); err != nil {
				return fw.Verdict{Status: fw.Inconclusive, What: "write: " + err.Error()}
			}
		}
	case "chain":
		for k := 0; k < n; k++ {
			if err := write(sP, k, szOf(k)); err != nil {
				return fw.Verdict{Status: fw.Inconclusive, What: "write: " + err.Error()}
			}
		}
	case "fork", "three-writers", "fork-heads-big", "three-writers-heads-big":
		// everybody writes without seeing the others, then P merges everything
		k := 0
		for _, s := range append([]iface.Store{sP}, storesOf(db, others)...) {
			for j := 0; j < 1+n/2; j++ {
				sz := szOf(k)
				if strings.HasSuffix(shape, "-heads-big") {
					// the last entry of every writer - a head of the merged log - is medium-sized
					sz = rng.Intn(40)
					if j == n/2 {
						sz = size - rng.Intn(64)
					}
				}
				if err := write(s, k, sz); err != nil {
					return fw.Verdict{Status: fw.Inconclusive, What: "write: " + err.Error()}
				}
				k++
			}
		}
		e.W.Settle()
		e.W.DropAll()
		for _, o := range others {
			_ = sP.Sync(bg, cloneHeads(headsOf(db.Stores[o.Idx])))
		}
		e.W.Flush()
	case "replicated":
		for k := 0; k < n; k++ {
			if err := write(db.Stores[others[0].Idx], k, szOf(k)); err != nil {
				return fw.Verdict{Status: fw.Inconclusive, What: "write: " + err.Error()}
			}
		}
		e.W.Flush()
		_ = write(sP, n, 10)
		e.W.Flush()
	case "sibling-closed":
		for k := 0; k < n; k++ {
			if err := write(sP, k, size); err != nil {
				return fw.Verdict{Status: fw.Inconclusive, What: "write: " + err.Error()}
			}
		}
		// a second handle of the same database in the same instance (they share the cache); the first one
		// is closed before the second one saves its snapshot
		octx, ocancel := context.WithTimeout(bg, 20*time.Second)
		sib, err := P.DB.Open(octx, db.Addr, &iface.CreateDBOptions{})
		ocancel()
		if err != nil {
			return fw.Verdict{Status: fw.Inconclusive, What: "sibling handle: " + err.Error()}
		}
		P.Track(sib)
		defer sib.Close()
		if err := sib.Load(bg, -1); err != nil {
			return fw.Verdict{Status: fw.Inconclusive, What: "sibling load: " + err.Error()}
		}
		_ = sP.Close()
		sP = sib
	case "writes-during-save":
		for k := 0; k < 150+n; k++ { // a long log: serialising it takes long enough for writes to land meanwhile
			if err := write(sP, k, rng.Intn(40)); err != nil {
				return fw.Verdict{Status: fw.Inconclusive, What: "write: " + err.Error()}
			}
		}
	case "in-progress", "in-progress-then-partition":
		for k := 0; k < 2; k++ {
			_ = write(sP, k, 10)
		}
		e.W.Flush()
		for k := 0; k < n; k++ {
			if err := write(db.Stores[others[0].Idx], 10+k, szOf(k)); err != nil {
				return fw.Verdict{Status: fw.Inconclusive, What: "write: " + err.Error()}
			}
		}
		e.W.Settle()
		e.W.DropAll()
		nfetch := 0
		e.W.SetGate(func(ctx context.Context, to, from *sim.Peer, _ cid.Cid) error {
			if to != P {
				return nil
			}
			nfetch++
			if shape == "in-progress-then-partition" && nfetch == 1 {
				// the fetcher's look-ahead for the head's predecessor fails, so that the predecessor is
				// queued as an item of its own whose block is NOT local when the snapshot is saved
				return fmt.Errorf("sim: fetch failed")
			}
			ch := make(chan struct{})
			held = append(held, ch)
			select {
			case <-ch:
			case <-ctx.Done():
				return ctx.Err()
			}
			return nil
		})
		_ = sP.Sync(bg, cloneHeads(headsOf(db.Stores[others[0].Idx])))
		time.Sleep(3 * time.Millisecond) // let the replicator reach the held fetch
	}
	before := TakeSnap(typ, sP, P.Idx)
	qlen := len(sP.Replicator().GetQueue())
	v.Count("replicator_queue_len_at_save", int64(qlen))

	ctx, cancel := context.WithTimeout(bg, 60*time.Second)
	defer cancel()
	stopW := make(chan struct{})
	var wwg sync.WaitGroup
	if shape == "writes-during-save" {
		// local writes and merges of remote entries keep landing while the snapshot is taken
		e.W.Instant = true
		wwg.Add(2)
		go func() {
			defer wwg.Done()
			for k := 0; ; k++ {
				select {
				case <-stopW:
					return
				default:
				}
				_ = write(sP, 1000+k, 8)
			}
		}()
		go func() {
			defer wwg.Done()
			for k := 0; ; k++ {
				select {
				case <-stopW:
					return
				default:
				}
				_ = write(db.Stores[others[0].Idx], 2000+k, 8)
				time.Sleep(100 * time.Microsecond)
			}
		}()
		time.Sleep(time.Duration(rng.Intn(1500)) * time.Microsecond)
	}
	_, saveErr := basestore.SaveSnapshot(ctx, sP)
	close(stopW)
	wwg.Wait()
	if shape == "writes-during-save" {
		e.W.Instant = false
		e.W.Flush()
	}
	atSaveEnd := TakeSnap(typ, sP, P.Idx)
	if shape == "in-progress-then-partition" {
		// the entries still being fetched stay unreachable: the peer that holds them is gone for good
		for _, o := range others {
			e.W.Cut(P, o)
		}
	}
	v.Count("save_calls", 1)
	// release held fetches, let replication finish
	e.W.SetGate(nil)
	for _, ch := range held {
		close(ch)
	}
	v.Sig = fw.HashSig(shape, size, typ, len(before.Order))
	v.NonTrivial = true
	if saveErr != nil {
		v.Count("save_refused", 1)
		v.Status = fw.Held
		v.Sample = map[string]interface{}{"shape": shape, "largest_payload": size, "type": typ, "entries": len(before.Order), "save": "refused: " + saveErr.Error()}
		return v
	}
	if shape == "in-progress-then-partition" {
		e.W.WaitIdle(sim.IdleOpts{Watchdog: 300 * time.Millisecond}) // the blocked fetches stay blocked: do not wait for them
	} else {
		e.W.Flush()
	}
	// fresh instance on the same directory, LoadFromSnapshot
	P.Stop()
	e.W.Settle()
	if err := P.Start(); err != nil {
		return fw.Verdict{Status: fw.Inconclusive, What: "restart: " + err.Error()}
	}
	if err := e.OpenOn(db, P); err != nil {
		return fw.Verdict{Status: fw.Inconclusive, What: "reopen: " + err.Error()}
	}
	s2 := db.Stores[P.Idx]
	loadBudget := 60 * time.Second
	if shape == "in-progress-then-partition" {
		loadBudget = 8 * time.Second // everything the snapshot needs is local; only the unreachable in-progress entries are not
	}
	lctx, lcancel := context.WithTimeout(bg, loadBudget)
	defer lcancel()
	if err := s2.LoadFromSnapshot(lctx); err != nil {
		return fw.Verdict{Status: fw.Violated, Key: "saved-snapshot-not-loadable/" + sizeClass(size), NonTrivial: true, Sig: v.Sig,
			What: fmt.Sprintf("SaveSnapshot returned nil for a %s log of %d entries (largest payload %d bytes, %s) but LoadFromSnapshot on a fresh instance fails: %v", shape, len(before.Order), size, typ, err)}
	}
	e.W.Flush()
	after := TakeSnap(typ, s2, P.Idx)
	v.Count("round_trips_compared", 1)
	bset := map[string]bool{}
	for _, h := range before.Order {
		bset[h] = true
	}
	aset := map[string]bool{}
	for _, h := range after.Order {
		aset[h] = true
	}
	for h := range bset {
		if !aset[h] {
			return fw.Verdict{Status: fw.Violated, Key: "snapshot-lost-entries/" + sizeClass(size), NonTrivial: true, Sig: v.Sig,
				What: fmt.Sprintf("reloaded snapshot lacks entry %s: %d entries at save time, %d after reload (%s, largest payload %d)", short(h), len(before.Order), len(after.Order), shape, size)}
		}
	}
	if shape == "writes-during-save" {
		// the snapshot is of some moment during the save: nothing it lists may be unknown at the end of the save
		end := map[string]bool{}
		for _, h := range atSaveEnd.Order {
			end[h] = true
		}
		for _, h := range after.Order {
			if !end[h] {
				return fw.Verdict{Status: fw.Violated, Key: "snapshot-unknown-entry", NonTrivial: true, Sig: v.Sig, What: "reloaded snapshot lists entry " + short(h) + " that the store did not hold when the save ended"}
			}
		}
		v.Count("snapshots_taken_under_concurrent_writes", 1)
	} else if !strings.HasPrefix(shape, "in-progress") {
		if !eqStrings(before.Order, after.Order) {
			return fw.Verdict{Status: fw.Violated, Key: "snapshot-different-log", NonTrivial: true, Sig: v.Sig, What: fmt.Sprintf("log after reload [%s] differs from log at save time [%s]", shorts(after.Order), shorts(before.Order))}
		}
		bh, ah := append([]string{}, before.Heads...), append([]string{}, after.Heads...)
		sort.Strings(bh)
		sort.Strings(ah)
		if !eqStrings(bh, ah) {
			return fw.Verdict{Status: fw.Violated, Key: "snapshot-different-heads", NonTrivial: true, Sig: v.Sig, What: fmt.Sprintf("heads after reload [%s] differ from heads at save time [%s]", shorts(ah), shorts(bh))}
		}
		if before.View != after.View {
			return fw.Verdict{Status: fw.Violated, Key: "snapshot-different-view", NonTrivial: true, Sig: v.Sig, What: "visible state after reload differs from the state at save time"}
		}
	}
	if ModelView(typ, after.Entries, after.Order) != after.View {
		return fw.Verdict{Status: fw.Violated, Key: "snapshot-view-not-replay", NonTrivial: true, Sig: v.Sig, What: "view after reload is not the replay of the reloaded log"}
	}
	v.Status = fw.Held
	v.Sample = map[string]interface{}{"shape": shape, "largest_payload": size, "type": typ, "entries": len(before.Order), "save": "ok", "reloaded_entries": len(after.Order)}
	return v
}

func sizeClass(n int) string {
	switch {
	case n < 60000:
		return "small"
	case n < 66000:
		return "around-64k"
	default:
		return "large"
	}
}

func storesOf(db *DB, ps []*sim.Peer) []iface.Store {
	var out []iface.Store
	for _, p := range ps {
		out = append(out, db.Stores[p.Idx])
	}
	return out
}

func maxInt(a, b int) int {
	if a > b {
		return a
	}
	return b
}
