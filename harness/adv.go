package main

import (
	"context"
	"encoding/json"
	"fmt"

	"berty.tech/go-ipfs-log/entry"
	idp "berty.tech/go-ipfs-log/identityprovider"
	logiface "berty.tech/go-ipfs-log/iface"
	"berty.tech/go-ipfs-log/io/cbor"
	"berty.tech/go-ipfs-log/keystore"
	"berty.tech/go-orbit-db/iface"
	cid "github.com/ipfs/go-cid"
	ds "github.com/ipfs/go-datastore"
	dsync "github.com/ipfs/go-datastore/sync"
	"github.com/libp2p/go-libp2p/core/crypto"

	"verifharness/sim"
)

// Adv is a malicious peer: a kubo node that stores blocks (so that victims
// can fetch what it references) and an identity of its own. It has no
// orbit-db instance; it builds entries with the public go-ipfs-log library,
// i.e. exactly what a real attacker could build.
type Adv struct {
	P    *sim.Peer
	KS   *keystore.Keystore
	ID   *idp.Identity
	Priv crypto.PrivKey
	IO   logiface.IO
}

func cborIO() logiface.IO {
	io, err := cbor.IO(&entry.Entry{}, &entry.LamportClock{})
	if err != nil {
		panic(err)
	}
	return io
}

func NewAdv(w *sim.World, name string) (*Adv, error) {
	p, err := w.AddPeer(sim.PeerOpts{Name: name, NoOrbit: true})
	if err != nil {
		return nil, err
	}
	ks, err := keystore.NewKeystore(dsync.MutexWrap(ds.NewMapDatastore()))
	if err != nil {
		return nil, err
	}
	id, err := idp.CreateIdentity(bg, &idp.CreateIdentityOptions{Keystore: ks, Type: "orbitdb", ID: name})
	if err != nil {
		return nil, err
	}
	priv, err := ks.GetKey(bg, id.ID)
	if err != nil {
		return nil, err
	}
	return &Adv{P: p, KS: ks, ID: id, Priv: priv, IO: cborIO()}, nil
}

// forgeProvider signs with the attacker's key whatever identity is claimed.
type forgeProvider struct {
	idp.Interface
	priv crypto.PrivKey
}

func (f *forgeProvider) Sign(_ context.Context, _ *idp.Identity, data []byte) ([]byte, error) {
	return f.priv.Sign(data)
}

// Forgery kinds.
const (
	fNonWriter      = "non-writer"              // honest entry of an identity that is not in the write list
	fCopiedID       = "copied-id"               // victim's identity id, attacker's public key and signatures
	fBlockVictimKey = "copied-block-victim-key" // victim's identity block, victim's key in `key`: signature cannot verify
	fBlockOwnKey    = "copied-block-own-key"    // victim's identity block, attacker's key in `key`: signature verifies against `key`
	fIDKeyBadSigs   = "copied-id-key-bad-sigs"  // victim's id and public key, attacker's identity signatures (and entry signature)
	fIDSigsOwnKey   = "copied-id-sigs-own-key"  // victim's id and identity signatures, attacker's public key (which signs the entry)
	fIDOtherType    = "copied-id-other-type"    // victim's id, attacker's key and signatures, and an identity type no provider here knows
)

var forgeKinds = []string{fNonWriter, fCopiedID, fBlockVictimKey, fBlockOwnKey, fIDKeyBadSigs, fIDSigsOwnKey, fIDOtherType}

// Forge builds an entry for log logID authored (really) by the attacker.
// victim is the authorised identity that is impersonated (unused for
// fNonWriter). The block is stored on the attacker's node.
func (a *Adv) Forge(kind, logID string, payload []byte, next, refs []cid.Cid, clockTime int, victim *idp.Identity) (*entry.Entry, error) {
	prov := &forgeProvider{Interface: a.ID.Provider, priv: a.Priv}
	claimed := &idp.Identity{ID: a.ID.ID, PublicKey: a.ID.PublicKey, Signatures: a.ID.Signatures, Type: a.ID.Type, Provider: prov}
	switch kind {
	case fNonWriter:
	case fCopiedID:
		claimed.ID = victim.ID
	case fIDKeyBadSigs:
		claimed.ID = victim.ID
		claimed.PublicKey = victim.PublicKey
	case fIDSigsOwnKey:
		claimed.ID = victim.ID
		claimed.Signatures = victim.Signatures
	case fIDOtherType:
		claimed.ID = victim.ID
		claimed.Type = "other"
	case fBlockVictimKey, fBlockOwnKey:
		claimed.ID = victim.ID
		claimed.PublicKey = victim.PublicKey
		claimed.Signatures = victim.Signatures
	default:
		return nil, fmt.Errorf("unknown forgery %s", kind)
	}
	if next == nil {
		next = []cid.Cid{}
	}
	if refs == nil {
		refs = []cid.Cid{}
	}
	e, err := entry.CreateEntryWithIO(bg, a.P.API, claimed, &entry.Entry{
		LogID:   logID,
		Payload: payload,
		Next:    next,
		Refs:    refs,
		Clock:   entry.NewLamportClock(claimed.PublicKey, clockTime),
	}, nil, a.IO)
	if err != nil {
		return nil, err
	}
	ee := e.(*entry.Entry)
	if kind == fBlockOwnKey {
		// the signature was made with the attacker's key; put that key in `key`
		ee.Key = a.ID.PublicKey
		h, err := a.IO.Write(bg, a.P.API, ee, nil)
		if err != nil {
			return nil, err
		}
		ee.Hash = h
	}
	return ee, nil
}

// Rehash stores e (as it is now) on the attacker's node and returns the CID
// of its content.
func (a *Adv) Rehash(e *entry.Entry) (cid.Cid, error) {
	return a.IO.Write(bg, a.P.API, e, nil)
}

// HonestEntry builds a valid entry signed by the identity of an honest
// orbit-db peer (a colluding or re-announcing writer) without going through
// its store. The block is stored on that peer's node.
func HonestEntry(p *sim.Peer, logID string, payload []byte, next, refs []cid.Cid, clockTime int) (*entry.Entry, error) {
	id := p.DB.Identity()
	if next == nil {
		next = []cid.Cid{}
	}
	if refs == nil {
		refs = []cid.Cid{}
	}
	e, err := entry.CreateEntryWithIO(bg, p.API, id, &entry.Entry{
		LogID:   logID,
		Payload: payload,
		Next:    next,
		Refs:    refs,
		Clock:   entry.NewLamportClock(id.PublicKey, clockTime),
	}, nil, cborIO())
	if err != nil {
		return nil, err
	}
	return e.(*entry.Entry), nil
}

// HeadsMsg serialises an exchange-heads message the way honest peers do.
func HeadsMsg(addr string, heads ...*entry.Entry) []byte {
	b, err := json.Marshal(&iface.MessageExchangeHeads{Address: addr, Heads: heads})
	if err != nil {
		panic(err)
	}
	return b
}

func opPayload(typ string, n int, key string) []byte {
	switch typ {
	case tEvent:
		b, _ := json.Marshal(map[string]interface{}{"op": "ADD", "value": []byte(fmt.Sprintf("adv%d", n))})
		return b
	case tKV:
		b, _ := json.Marshal(map[string]interface{}{"op": "PUT", "key": key, "value": []byte(fmt.Sprintf("adv%d", n))})
		return b
	default:
		doc, _ := json.Marshal(map[string]interface{}{"_id": key, "n": n, "tag": "adv"})
		b, _ := json.Marshal(map[string]interface{}{"op": "PUT", "key": key, "value": doc})
		return b
	}
}
