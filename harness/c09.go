package main

import (
	"context"
	"encoding/json"
	"fmt"
	"math/rand"
	"sync"
	"time"

	ipfslog "berty.tech/go-ipfs-log"
	"berty.tech/go-orbit-db/iface"
	"berty.tech/go-orbit-db/stores"

	"verifharness/fw"
	"verifharness/sim"
)

func init() {
	fw.Register(&fw.Property{
		ID:    "C09",
		Level: "exploration",
		Rule: "cases = two peers, each ONE instance with 2-4 databases (mixed types; write lists wildcard / shared / disjoint) on the default shared event bus; 20-60 steps of {local write, remote write + delivery (replication), Load(-1), manual Sync} on a PRNG-chosen ACTIVE database while the others idle, roles rotating every few steps; then rounds in which two databases of one instance are written concurrently (with PRNG latency in the simulated topic.Peers call); then a reconnect after which only the direct-channel head exchange (payloads for all databases back to back) can deliver one new entry per database and peer; finally both instances are restarted and every database is reopened and loaded (in half of the cases with ONE CreateDBOptions value reused for every Open); in one case in three the instances keep their caches in memory (the default directory) and, instead of the restart, a second handle of every database is opened on the running instance and loaded. In every second case the first two databases have the same name. Monitors: wire log (every publish and direct send), a harness subscription to every store event on both shared buses, and (progress, max, entries, view) of every idle database before/after each phase. " +
			"distinct = hash(database set, step script); non-trivial = >= 2 databases, >= 1 database idle while another replicated remote entries, and >= 10 wire messages checked",
		Assumptions: []string{"simulated network records every message the stores publish or send", "the harness's own bus subscription has a large buffer and is drained continuously"},
		Cases:       c09Cases,
		Run:         c09Run,
		MinDistinct: map[string]int{"quick": 15, "thorough": 120},
		Batch:       6,
		Explain:     "oracle: (1) every message on topic T and every direct payload naming address T carries only heads whose log id is T, and a publish on topic T names address T; (2) while only database X is active every other database of the same instance keeps its entries, view and (progress, max), and no store event with its address is emitted; (3) every EventWrite / EventReplicated / EventReplicateProgress carries entries whose log id equals the event's address; (4) after the restart every database lists exactly its own entries again.",
	})
}

func c09Cases(tier string, seed int64) []fw.Case {
	n := 30
	if tier == "thorough" {
		n = 250
	}
	rng := rand.New(rand.NewSource(seed*817504243 + 9))
	var out []fw.Case
	for i := 0; i < n; i++ {
		out = append(out, fw.Case{Idx: i, Seed: rng.Int63(), P: map[string]interface{}{"ndbs": 2 + rng.Intn(3), "steps": 20 + rng.Intn(41), "lists": []string{"wild", "shared", "disjoint"}[i%3], "shared": i%2 == 1, "memdir": i%6 == 1 || i%6 == 3}})
	}
	return out
}

type c09Event struct {
	peer int
	addr string
	kind string
	logs []string // log ids of carried entries
}

func c09Run(c fw.Case) fw.Verdict {
	e := NewEnv()
	defer e.Close()
	v := fw.Verdict{}
	rng := rand.New(rand.NewSource(c.Seed))
	nd, nsteps, lists := c.Int("ndbs", 2), c.Int("steps", 20), c.Str("lists", "wild")
	// memdir: the instances keep their caches in memory (the default when no directory is given)
	memdir := c.Bool("memdir")
	A, err := e.W.AddPeer(sim.PeerOpts{OnDisk: !memdir})
	if err != nil {
		return fw.Verdict{Status: fw.Inconclusive, What: err.Error()}
	}
	B, err := e.W.AddPeer(sim.PeerOpts{OnDisk: !memdir})
	if err != nil {
		return fw.Verdict{Status: fw.Inconclusive, What: err.Error()}
	}
	peers := []*sim.Peer{A, B}
	shared := c.Bool("shared")
	sharedOpen := map[int]*iface.CreateDBOptions{} // per instance: one options value reused for every Open, as an application might
	var prng sync.Mutex
	drng := rand.New(rand.NewSource(c.Seed + 77))
	e.W.PeersDelay = func() time.Duration {
		prng.Lock()
		defer prng.Unlock()
		if drng.Intn(3) == 0 {
			return time.Duration(drng.Intn(400)) * time.Microsecond
		}
		return 0
	}
	// in every second case the first two databases have the SAME name (their types, hence their addresses, differ)
	dbName := func(i int) string {
		if c.Idx%2 == 1 && i < 2 {
			return "c09-same"
		}
		return fmt.Sprintf("c09-%d", i)
	}
	var dbs []*DB
	for i := 0; i < nd; i++ {
		var wl []string
		switch lists {
		case "wild":
			wl = []string{"*"}
		case "shared":
			wl = idsOf(A, B)
		default:
			wl = idsOf(A, B) // both can write everywhere; creator differs
		}
		creator, other := A, B
		if lists == "disjoint" && i%2 == 1 {
			creator, other = B, A
		}
		var db *DB
		if shared {
			db, err = e.CreateDB(dbName(i), storeTypes[(i+c.Idx)%3], creator, nil, wl)
			if err == nil {
				octx, ocancel := context.WithTimeout(bg, 20*time.Second)
				var so iface.Store
				if sharedOpen[other.Idx] == nil {
					sharedOpen[other.Idx] = &iface.CreateDBOptions{}
				}
				so, err = other.DB.Open(octx, db.Addr, sharedOpen[other.Idx])
				ocancel()
				if err == nil {
					other.Track(so)
					db.Stores[other.Idx] = so
				}
			}
		} else {
			db, err = e.CreateDB(dbName(i), storeTypes[(i+c.Idx)%3], creator, []*sim.Peer{other}, wl)
		}
		if err != nil {
			return fw.Verdict{Status: fw.Inconclusive, What: "create: " + err.Error()}
		}
		dbs = append(dbs, db)
	}
	e.W.Flush()

	// event monitor on both shared buses
	var emu sync.Mutex
	var evs []c09Event
	ctx, cancel := context.WithCancel(bg)
	defer cancel()
	var wg sync.WaitGroup
	logIDs := func(es []ipfslog.Entry) []string {
		var out []string
		for _, en := range es {
			if en != nil {
				out = append(out, en.GetLogID())
			}
		}
		return out
	}
	for pi, p := range peers {
		sub, err := p.Bus.Subscribe([]interface{}{new(stores.EventWrite), new(stores.EventReplicated), new(stores.EventReplicate), new(stores.EventReplicateProgress), new(stores.EventLoad), new(stores.EventReady)}, busBuf(8192))
		if err != nil {
			return fw.Verdict{Status: fw.Inconclusive, What: "subscribe: " + err.Error()}
		}
		wg.Add(1)
		go func(pi int) {
			defer wg.Done()
			defer sub.Close()
			for {
				select {
				case x := <-sub.Out():
					ce := c09Event{peer: pi}
					switch ev := x.(type) {
					case stores.EventWrite:
						ce.kind, ce.addr, ce.logs = "write", ev.Address.String(), logIDs(append([]ipfslog.Entry{ev.Entry}, ev.Heads...))
					case stores.EventReplicated:
						ce.kind, ce.addr, ce.logs = "replicated", ev.Address.String(), logIDs(ev.Entries)
					case stores.EventReplicate:
						ce.kind, ce.addr = "replicate", ev.Address.String()
					case stores.EventReplicateProgress:
						ce.kind, ce.addr = "replicate-progress", ev.Address.String()
						if ev.Entry != nil {
							ce.logs = logIDs([]ipfslog.Entry{ev.Entry})
						}
					case stores.EventLoad:
						ce.kind, ce.addr, ce.logs = "load", ev.Address.String(), logIDs(ev.Heads)
					case stores.EventReady:
						ce.kind, ce.addr, ce.logs = "ready", ev.Address.String(), logIDs(ev.Heads)
					}
					emu.Lock()
					evs = append(evs, ce)
					emu.Unlock()
				case <-ctx.Done():
					return
				}
			}
		}(pi)
	}
	takeEvents := func() []c09Event {
		time.Sleep(2 * time.Millisecond) // harness subscriber drain (not a verdict)
		emu.Lock()
		defer emu.Unlock()
		out := evs
		evs = nil
		return out
	}

	type idleState struct {
		order    []string
		view     string
		progress int
		max      int
	}
	stateOf := func(db *DB, p *sim.Peer) idleState {
		sn := TakeSnap(db.Type, db.Stores[p.Idx], p.Idx)
		return idleState{sn.Order, sn.View, sn.Progress, sn.Max}
	}
	wireSeen := 0
	checkWire := func() *Violation {
		log := e.W.WireLog()
		for _, w := range log[wireSeen:] {
			v.Count("wire_messages_checked", 1)
			var m struct {
				Address string `json:"address"`
				Heads   []struct {
					ID string `json:"id"`
				} `json:"heads"`
			}
			if err := json.Unmarshal(w.Data, &m); err != nil {
				continue
			}
			if w.Kind == "pub" && m.Address != w.Topic {
				return &Violation{"crosstalk=announce", fmt.Sprintf("p%d published a message naming address %s on the topic of %s", w.From, m.Address, w.Topic)}
			}
			for _, h := range m.Heads {
				if h.ID != m.Address {
					return &Violation{"crosstalk=announce", fmt.Sprintf("p%d sent (%s) a message for %s carrying a head of log %s", w.From, w.Kind, m.Address, h.ID)}
				}
			}
		}
		wireSeen = len(log)
		return nil
	}

	var steps []string
	k := 0
	idleWhileReplicating := 0
	fail := func(vio *Violation) fw.Verdict {
		return fw.Verdict{Status: fw.Violated, Key: vio.Key, What: vio.What, NonTrivial: true, Sig: fw.HashSig(nd, lists, c.Seed), Counters: v.Counters, Trace: steps}
	}
	for done := 0; done < nsteps; {
		active := dbs[rng.Intn(len(dbs))]
		// idle databases: snapshot on both peers
		before := map[string]idleState{}
		for _, db := range dbs {
			if db == active {
				continue
			}
			for _, p := range peers {
				before[fmt.Sprintf("%s@%d", db.Addr, p.Idx)] = stateOf(db, p)
			}
		}
		takeEvents()
		replicated := false
		phase := 2 + rng.Intn(5)
		for i := 0; i < phase && done < nsteps; i++ {
			done++
			k++
			p := peers[rng.Intn(2)]
			s := active.Stores[p.Idx]
			switch x := rng.Intn(10); {
			case x < 6:
				steps = append(steps, fmt.Sprintf("write %s on p%d", active.Name, p.Idx))
				if _, err := ApplyOp(bg, s, honestOp(active.Type, k)); err != nil {
					return fw.Verdict{Status: fw.Inconclusive, What: "write: " + err.Error()}
				}
				e.W.Settle()
				if n := e.W.DeliverAll(); n > 0 {
					replicated = true
				}
			case x < 8:
				steps = append(steps, fmt.Sprintf("load %s on p%d", active.Name, p.Idx))
				lctx, lcancel := context.WithTimeout(bg, 30*time.Second)
				_ = s.Load(lctx, -1)
				lcancel()
			default:
				o := peers[1-p.Idx]
				steps = append(steps, fmt.Sprintf("sync %s p%d<-p%d", active.Name, p.Idx, o.Idx))
				_ = s.Sync(bg, cloneHeads(headsOf(active.Stores[o.Idx])))
				replicated = true
			}
			if !e.W.Flush() {
				return fw.Verdict{Status: fw.Inconclusive, What: fmt.Sprintf("rest not reached: %v", e.H.Detail()), Trace: steps}
			}
		}
		// oracle (1): wire
		if vio := checkWire(); vio != nil {
			return fail(vio)
		}
		// oracle (2): idle databases unchanged, no events for them
		for _, db := range dbs {
			if db == active {
				continue
			}
			if replicated {
				idleWhileReplicating++
			}
			for _, p := range peers {
				b := before[fmt.Sprintf("%s@%d", db.Addr, p.Idx)]
				a := stateOf(db, p)
				v.Count("idle_database_checks", 1)
				if !eqStrings(a.order, b.order) || a.view != b.view {
					return fail(&Violation{"crosstalk=contents", fmt.Sprintf("idle database %s on p%d changed (%d -> %d entries) while only %s was active", db.Name, p.Idx, len(b.order), len(a.order), active.Name)})
				}
				if a.progress != b.progress || a.max != b.max {
					return fail(&Violation{"crosstalk=replication-status", fmt.Sprintf("replication status of idle database %s on p%d changed from (%d,%d) to (%d,%d) while only %s was active", db.Name, p.Idx, b.progress, b.max, a.progress, a.max, active.Name)})
				}
			}
		}
		for _, ev := range takeEvents() {
			v.Count("store_events_checked", 1)
			if ev.addr != active.Addr {
				name := ev.addr
				for _, db := range dbs {
					if db.Addr == ev.addr {
						name = db.Name
					}
				}
				return fail(&Violation{"crosstalk=events", fmt.Sprintf("store event %q with the address of idle database %s was emitted on p%d while only %s was active", ev.kind, name, ev.peer, active.Name)})
			}
			// oracle (3)
			for _, l := range ev.logs {
				if l != ev.addr {
					return fail(&Violation{"crosstalk=event-entries", fmt.Sprintf("store event %q for %s carries an entry of log %s", ev.kind, ev.addr, l)})
				}
			}
		}
	}
	// ---- two databases of one instance written at the same time: only oracles (1) and (3) apply ----
	if len(dbs) >= 2 {
		for round := 0; round < 3; round++ {
			x, y := dbs[rng.Intn(len(dbs))], dbs[rng.Intn(len(dbs))]
			if x == y {
				continue
			}
			p := peers[rng.Intn(2)]
			takeEvents()
			var bw sync.WaitGroup
			for _, db := range []*DB{x, y} {
				bw.Add(1)
				go func(db *DB) {
					defer bw.Done()
					for i := 0; i < 3; i++ {
						_, _ = ApplyOp(bg, db.Stores[p.Idx], honestOp(db.Type, 50000+round*10+i))
					}
				}(db)
			}
			bw.Wait()
			steps = append(steps, fmt.Sprintf("concurrent writes %s,%s on p%d", x.Name, y.Name, p.Idx))
			v.Count("concurrent_two_database_bursts", 1)
			if !e.W.Flush() {
				return fw.Verdict{Status: fw.Inconclusive, What: fmt.Sprintf("rest not reached: %v", e.H.Detail()), Trace: steps}
			}
			if vio := checkWire(); vio != nil {
				return fail(vio)
			}
			for _, ev := range takeEvents() {
				for _, l := range ev.logs {
					if l != ev.addr {
						return fail(&Violation{"crosstalk=event-entries", fmt.Sprintf("store event %q for %s carries an entry of log %s", ev.kind, ev.addr, l)})
					}
				}
			}
		}
	}
	// ---- head exchange on reconnect: payloads for ALL databases arrive back to back on the direct channel ----
	for _, db := range dbs {
		for _, p := range peers {
			k++
			_, _ = ApplyOp(bg, db.Stores[p.Idx], honestOp(db.Type, 70000+k))
		}
	}
	e.W.Settle()
	e.W.DropAll() // no announcement gets through: only the exchange on reconnect can deliver these entries
	e.W.Cut(A, B)
	e.W.Heal(A, B)
	if !e.W.Flush() {
		return fw.Verdict{Status: fw.Inconclusive, What: fmt.Sprintf("rest not reached: %v", e.H.Detail()), Trace: steps}
	}
	if vio := checkWire(); vio != nil {
		return fail(vio)
	}
	converged := func() *Violation {
		for _, db := range dbs {
			a, b := stateOf(db, A), stateOf(db, B)
			if !eqStrings(a.order, b.order) {
				return &Violation{"crosstalk=direct-exchange", fmt.Sprintf("after reconnecting, the head exchange for %d databases left %s with %d entries on p0 and %d on p1 (each peer wrote one entry per database that only the exchange could deliver)", len(dbs), db.Name, len(a.order), len(b.order))}
			}
		}
		return nil
	}
	if vio := converged(); vio != nil {
		// negative verdict only at confirmed rest
		if e.W.WaitIdle(sim.IdleOpts{Stable: confirmWindow(), Watchdog: 60 * time.Second, PoolMustBeEmpty: true}) {
			if vio = converged(); vio != nil {
				return fail(vio)
			}
		}
	}
	v.Count("direct_exchange_rounds", 1)
	takeEvents()
	cancel()
	wg.Wait()
	// ---- restart both instances: every database must come back with its own entries ----
	want := map[string]idleState{}
	for _, db := range dbs {
		for _, p := range peers {
			want[fmt.Sprintf("%s@%d", db.Addr, p.Idx)] = stateOf(db, p)
		}
	}
	if memdir {
		// nothing survives a restart of an in-memory instance: instead a SECOND handle of every database is
		// opened on the running instance and loaded from the cache; it must list that database's entries
		// (those its first handle holds) and nothing else
		for _, p := range peers {
			for _, db := range dbs {
				octx, ocancel := context.WithTimeout(bg, 20*time.Second)
				second, err := p.DB.Open(octx, db.Addr, &iface.CreateDBOptions{})
				if err == nil {
					p.Track(second)
					err = second.Load(octx, -1)
				}
				ocancel()
				if err != nil {
					return fail(&Violation{"second-handle-failed", fmt.Sprintf("database %s on p%d: second handle: %v", db.Name, p.Idx, err)})
				}
				e.W.Settle()
				first := want[fmt.Sprintf("%s@%d", db.Addr, p.Idx)]
				own := map[string]bool{}
				for _, h := range first.order {
					own[h] = true
				}
				v.Count("second_handle_checks", 1)
				for _, en := range second.OpLog().Values().Slice() {
					if en.GetLogID() != db.Addr || !own[en.GetHash().String()] {
						return fail(&Violation{"crosstalk=persisted-state", fmt.Sprintf("a second handle of database %s on p%d (in-memory cache) loaded entry %s of log %s, which the first handle of that database does not hold", db.Name, p.Idx, short(en.GetHash().String()), en.GetLogID())})
					}
				}
				_ = second.Close()
				// closing either handle makes the instance forget the address: register the first one again is
				// not possible, so nothing else is done with this database on this peer
			}
		}
		v.Status = fw.Held
		v.Sig = fw.HashSig(nd, lists, fmt.Sprint(steps), "memdir")
		v.NonTrivial = nd >= 2 && idleWhileReplicating > 0 && v.Counters["wire_messages_checked"] >= 10
		v.Count("idle_while_other_replicated", int64(idleWhileReplicating))
		v.Sample = map[string]interface{}{"write_lists": lists, "in_memory_directory": true, "databases": nd}
		return v
	}
	for _, p := range peers {
		p.Stop()
	}
	e.W.Settle()
	for _, p := range peers {
		reopen := &iface.CreateDBOptions{} // one value per instance, reused for every Open on it
		if err := p.Start(); err != nil {
			return fw.Verdict{Status: fw.Inconclusive, What: "restart: " + err.Error()}
		}
		for _, db := range dbs {
			opts := &iface.CreateDBOptions{}
			if shared {
				opts = reopen
			}
			octx, ocancel := context.WithTimeout(bg, 20*time.Second)
			so, err := p.DB.Open(octx, db.Addr, opts)
			ocancel()
			if err != nil {
				return fail(&Violation{"reopen-failed", fmt.Sprintf("database %s cannot be reopened on p%d: %v", db.Name, p.Idx, err)})
			}
			p.Track(so)
			db.Stores[p.Idx] = so
		}
		for _, db := range dbs {
			if err := db.Stores[p.Idx].Load(bg, -1); err != nil {
				return fail(&Violation{"reload-failed", fmt.Sprintf("database %s on p%d: Load: %v", db.Name, p.Idx, err)})
			}
		}
	}
	e.W.Settle()
	e.W.DropAll()
	for _, db := range dbs {
		for _, p := range peers {
			b := want[fmt.Sprintf("%s@%d", db.Addr, p.Idx)]
			a := stateOf(db, p)
			v.Count("restart_checks", 1)
			if !eqStrings(a.order, b.order) || a.view != b.view {
				return fail(&Violation{"crosstalk=persisted-state", fmt.Sprintf("database %s on p%d held %d entries before the restart and lists %d after it (shared options value: %v)", db.Name, p.Idx, len(b.order), len(a.order), shared)})
			}
		}
	}
	v.Status = fw.Held
	v.Sig = fw.HashSig(nd, lists, fmt.Sprint(steps))
	v.NonTrivial = nd >= 2 && idleWhileReplicating > 0 && v.Counters["wire_messages_checked"] >= 10
	v.Count("idle_while_other_replicated", int64(idleWhileReplicating))
	types := []string{}
	for _, db := range dbs {
		types = append(types, db.Type)
	}
	if len(steps) > 40 {
		steps = steps[:40]
	}
	v.Sample = map[string]interface{}{"databases": types, "write_lists": lists, "steps": steps}
	return v
}

var _ iface.Store
