package main

import (
	"context"
	"encoding/json"
	"fmt"
	"math/rand"
	"os"
	"strings"
	"time"

	ipfslog "berty.tech/go-ipfs-log"
	"berty.tech/go-ipfs-log/entry"
	idp "berty.tech/go-ipfs-log/identityprovider"
	"berty.tech/go-orbit-db/iface"
	cid "github.com/ipfs/go-cid"
	"github.com/multiformats/go-multibase"

	"verifharness/fw"
	"verifharness/sim"
)

func init() {
	fw.Register(&fw.Property{
		ID:    "C04",
		Level: "exploration",
		Rule: "ENUMERATED matrix: a valid entry of an honest two-writer log at 3 positions (directly on the heads, one and two links above) x every single-field mutation of its wire form (payload, clock time, clock id, next drop/add/replace, refs, v, key, sig, identity id/publicKey/signatures/type, log id (other database, garbage, and alternative spellings of the replica's own address: no prefix, trailing / double slash, other multibase), claimed hash, plus a genuine entry of another database) x {claimed hash kept, hash recomputed} x route {announced head, head on the direct channel, head via Sync, ancestor behind a colluding writer's head} ; thorough adds PRNG variants (random bytes / ints) per field and 3 seeds. A classifier built from the dependency's primitives (IO.Write for the content hash, Entry.Verify for the signature) decides per mutated entry which clause applies; expectations are derived from the classification only. " +
			"distinct = cell (mutation, hash mode, route, position, store type); non-trivial = the classifier found at least one clause violated, the entry was delivered and an honest marker write through the same path took effect afterwards",
		Assumptions: []string{"hash, CBOR and signature primitives of go-ipfs-log are the trusted base of the classifier", "content addressing is honoured by the block exchange: an adversary cannot serve other bytes under a CID"},
		Cases:       c04Cases,
		Run:         c04Run,
		MinDistinct: map[string]int{"quick": 80, "thorough": 250},
		Batch:       15,
		Explain:     "oracle: if content hash != claimed hash, or signature invalid for content, or log id != database address, then neither the claimed nor the true hash is in the replica's log after rest, and the replica's previous entries, heads and view are unchanged (apart from honest entries delivered alongside / the marker); the membership oracle is repeated after the replica was closed, reopened and loaded from its cached heads. Mutations for which no clause applies are counted as unclassified-acceptable and not judged.",
	})
}

type mutation struct {
	name string
	f    func(m *entry.Entry, x *c04Ctx, rng *rand.Rand, variant int)
}

type c04Ctx struct {
	other   cid.Cid
	advPub  []byte
	advID   *idp.Identity
	otherDB string
}

func flip(b []byte, rng *rand.Rand) []byte {
	o := append([]byte{}, b...)
	if len(o) == 0 {
		return []byte{1}
	}
	o[rng.Intn(len(o))] ^= byte(1 + rng.Intn(255))
	return o
}

var c04Mutations = []mutation{
	{"payload", func(m *entry.Entry, x *c04Ctx, r *rand.Rand, v int) {
		if v == 0 {
			m.Payload = append(append([]byte{}, m.Payload...), ' ')
		} else {
			m.Payload = flip(m.Payload, r)
		}
	}},
	{"clock.time", func(m *entry.Entry, x *c04Ctx, r *rand.Rand, v int) {
		d := 1
		if v > 0 {
			d = 1 + r.Intn(1000)
		}
		m.Clock = entry.NewLamportClock(m.Clock.ID, m.Clock.Time+d)
	}},
	{"clock.id", func(m *entry.Entry, x *c04Ctx, r *rand.Rand, v int) {
		id := x.advPub
		if v > 0 {
			id = flip(m.Clock.ID, r)
		}
		m.Clock = entry.NewLamportClock(id, m.Clock.Time)
	}},
	{"next.drop", func(m *entry.Entry, x *c04Ctx, r *rand.Rand, v int) { m.Next = []cid.Cid{} }},
	{"next.add", func(m *entry.Entry, x *c04Ctx, r *rand.Rand, v int) {
		m.Next = append(append([]cid.Cid{}, m.Next...), x.other)
	}},
	{"next.replace", func(m *entry.Entry, x *c04Ctx, r *rand.Rand, v int) { m.Next = []cid.Cid{x.other} }},
	{"refs.add", func(m *entry.Entry, x *c04Ctx, r *rand.Rand, v int) {
		m.Refs = append(append([]cid.Cid{}, m.Refs...), x.other)
	}},
	{"v", func(m *entry.Entry, x *c04Ctx, r *rand.Rand, v int) {
		if v == 0 {
			m.V = 1
		} else {
			m.V = uint64(3 + r.Intn(100))
		}
	}},
	{"key", func(m *entry.Entry, x *c04Ctx, r *rand.Rand, v int) {
		if v == 0 {
			m.Key = x.advPub
		} else {
			m.Key = flip(m.Key, r)
		}
	}},
	{"sig", func(m *entry.Entry, x *c04Ctx, r *rand.Rand, v int) { m.Sig = flip(m.Sig, r) }},
	{"identity.id", func(m *entry.Entry, x *c04Ctx, r *rand.Rand, v int) {
		i := *m.Identity
		i.ID = x.advID.ID
		m.Identity = &i
	}},
	{"identity.publicKey", func(m *entry.Entry, x *c04Ctx, r *rand.Rand, v int) {
		i := *m.Identity
		i.PublicKey = x.advPub
		m.Identity = &i
	}},
	{"identity.signatures", func(m *entry.Entry, x *c04Ctx, r *rand.Rand, v int) {
		i := *m.Identity
		i.Signatures = &idp.IdentitySignature{ID: flip(i.Signatures.ID, r), PublicKey: i.Signatures.PublicKey}
		m.Identity = &i
	}},
	{"identity.type", func(m *entry.Entry, x *c04Ctx, r *rand.Rand, v int) {
		i := *m.Identity
		i.Type = "other"
		m.Identity = &i
	}},
	{"logid", func(m *entry.Entry, x *c04Ctx, r *rand.Rand, v int) {
		if v == 0 {
			m.LogID = x.otherDB
		} else {
			m.LogID = m.LogID + "x"
		}
	}},
	// alternative spellings of the replica's own address: equal after lenient parsing, different as strings
	{"logid.no-prefix", func(m *entry.Entry, x *c04Ctx, r *rand.Rand, v int) {
		m.LogID = strings.TrimPrefix(m.LogID, "/orbitdb/")
	}},
	{"logid.trailing-slash", func(m *entry.Entry, x *c04Ctx, r *rand.Rand, v int) { m.LogID = m.LogID + "/" }},
	{"logid.double-slash", func(m *entry.Entry, x *c04Ctx, r *rand.Rand, v int) {
		m.LogID = strings.Replace(m.LogID, "/orbitdb/", "/orbitdb//", 1)
	}},
	{"logid.multibase", func(m *entry.Entry, x *c04Ctx, r *rand.Rand, v int) {
		parts := strings.SplitN(strings.TrimPrefix(m.LogID, "/orbitdb/"), "/", 2)
		if c, err := cid.Decode(parts[0]); err == nil && len(parts) == 2 {
			alt := strings.ToUpper(c.String()) // upper-case base32 is another valid multibase spelling
			if v%2 == 1 {
				if s, err := c.StringOfBase(multibase.Base58BTC); err == nil {
					alt = s
				}
			}
			m.LogID = "/orbitdb/" + alt + "/" + parts[1]
		}
	}},
	{"claimed-hash", func(m *entry.Entry, x *c04Ctx, r *rand.Rand, v int) { m.Hash = x.other }},
	{"foreign-db-entry", nil}, // a genuine, valid entry of another database
}

var c04Routes = []string{"announce", "exchange", "sync", "ancestor"}

func c04Cases(tier string, seed int64) []fw.Case {
	var out []fw.Case
	rng := rand.New(rand.NewSource(seed*48271 + 4))
	reps, variants := 1, 1
	if tier == "thorough" {
		reps, variants = 3, 3
	}
	idx := 0
	for rep := 0; rep < reps; rep++ {
		for _, m := range c04Mutations {
			for _, mode := range []string{"kept", "recomputed"} {
				for ri, route := range c04Routes {
					if route == "ancestor" && mode == "kept" {
						continue // an ancestor is fetched by CID: content addressing makes this variant unbuildable
					}
					if m.name == "claimed-hash" && mode == "recomputed" {
						continue
					}
					if m.name == "foreign-db-entry" && mode == "kept" {
						continue
					}
					for v := 0; v < variants; v++ {
						pos := (idx + ri) % 3
						out = append(out, fw.Case{Idx: idx, Seed: rng.Int63(), P: map[string]interface{}{
							"mut": m.name, "mode": mode, "route": route, "pos": pos, "variant": v, "type": storeTypes[idx%3],
						}})
						idx++
					}
				}
			}
		}
	}
	return out
}

func copyEntry(e *entry.Entry) *entry.Entry {
	c := *e
	c.Next = append([]cid.Cid{}, e.Next...)
	c.Refs = append([]cid.Cid{}, e.Refs...)
	c.Payload = append([]byte{}, e.Payload...)
	c.Key = append([]byte{}, e.Key...)
	c.Sig = append([]byte{}, e.Sig...)
	if e.Clock != nil {
		c.Clock = entry.NewLamportClock(e.Clock.ID, e.Clock.Time)
	}
	if e.Identity != nil {
		i := *e.Identity
		c.Identity = &i
	}
	return &c
}

func c04Run(c fw.Case) fw.Verdict {
	e := NewEnv()
	defer e.Close()
	v := fw.Verdict{}
	rng := rand.New(rand.NewSource(c.Seed))
	mut, mode, route, typ, pos := c.Str("mut", "payload"), c.Str("mode", "kept"), c.Str("route", "sync"), c.Str("type", tKV), c.Int("pos", 0)
	v.Sig = fw.HashSig(mut, mode, route, pos, typ, c.Int("variant", 0))
	mk := func() *sim.Peer {
		p, err := e.W.AddPeer(sim.PeerOpts{})
		if err != nil {
			panic(err)
		}
		return p
	}
	C, W2 := mk(), mk()
	R, err := e.W.AddPeer(sim.PeerOpts{OnDisk: true})
	if err != nil {
		return fw.Verdict{Status: fw.Inconclusive, What: err.Error()}
	}
	A, err := NewAdv(e.W, "mallory")
	if err != nil {
		return fw.Verdict{Status: fw.Inconclusive, What: err.Error()}
	}
	db, err := e.CreateDB("c04", typ, C, []*sim.Peer{W2, R}, idsOf(C, W2))
	if err != nil {
		return fw.Verdict{Status: fw.Inconclusive, What: "create: " + err.Error()}
	}
	db2, err := e.CreateDB("c04-other", typ, C, nil, idsOf(C, W2))
	if err != nil {
		return fw.Verdict{Status: fw.Inconclusive, What: "create2: " + err.Error()}
	}
	sC, sW, sR := db.Stores[C.Idx], db.Stores[W2.Idx], db.Stores[R.Idx]
	n := 6 + rng.Intn(5)
	for i := 0; i < n; i++ {
		s := sC
		if i%2 == 1 {
			s = sW
		}
		if _, err := ApplyOp(bg, s, honestOp(typ, i)); err != nil {
			return fw.Verdict{Status: fw.Inconclusive, What: "honest write: " + err.Error()}
		}
		if rng.Intn(2) == 0 {
			e.W.Flush()
		}
	}
	if !e.W.Flush() {
		return fw.Verdict{Status: fw.Inconclusive, What: "history did not settle"}
	}
	base := TakeSnap(typ, sR, R.Idx)
	if len(base.Order) != n {
		return fw.Verdict{Status: fw.Inconclusive, What: fmt.Sprintf("replica holds %d of %d honest entries", len(base.Order), n)}
	}
	maxT := 0
	var heads []cid.Cid
	for _, h := range headsOf(sC) {
		heads = append(heads, h.GetHash())
		if t := h.GetClock().GetTime(); t > maxT {
			maxT = t
		}
	}
	// a chain of valid entries E0..Epos above the heads, signed by C, not in any store
	chainNext := heads
	var target *entry.Entry
	var below []*entry.Entry
	for i := 0; i <= pos; i++ {
		he, err := HonestEntry(C, db.Addr, opPayload(typ, 40+i, "m"), chainNext, nil, maxT+1+i)
		if err != nil {
			return fw.Verdict{Status: fw.Inconclusive, What: "chain: " + err.Error()}
		}
		if i < pos {
			below = append(below, he)
		}
		target = he
		chainNext = []cid.Cid{he.Hash}
	}
	var foreign *entry.Entry
	if mut == "foreign-db-entry" {
		// the announced foreign head has 0-2 foreign ancestors: the replicator hands several foreign logs
		// over in one batch
		for i := 0; i <= pos; i++ {
			op, err := ApplyOp(bg, db2.Stores[C.Idx], honestOp(typ, 77+i))
			if err != nil {
				return fw.Verdict{Status: fw.Inconclusive, What: "foreign write: " + err.Error()}
			}
			foreign = op.GetEntry().(*entry.Entry)
		}
	}
	other, _ := A.Rehash(&entry.Entry{LogID: "x", Payload: []byte("x"), V: 2, Clock: entry.NewLamportClock([]byte{1}, 1)})
	x := &c04Ctx{other: other, advPub: A.ID.PublicKey, advID: A.ID, otherDB: db2.Addr}

	m := copyEntry(target)
	if foreign != nil {
		m = copyEntry(foreign)
	} else {
		for _, mu := range c04Mutations {
			if mu.name == mut {
				mu.f(m, x, rng, c.Int("variant", 0))
			}
		}
	}
	trueHash, err := A.Rehash(m)
	if err != nil {
		return fw.Verdict{Status: fw.Skipped, What: "mutated entry cannot be serialised: " + err.Error(), Sig: v.Sig}
	}
	if mode == "recomputed" {
		m.Hash = trueHash
	}
	// ---- classifier ----
	hashOK := trueHash.Equals(m.Hash)
	sigOK := m.Verify(C.DB.Identity().Provider, cborIO()) == nil
	logOK := m.LogID == db.Addr
	clause := ""
	switch {
	case !hashOK:
		clause = "hash"
	case !sigOK:
		clause = "signature"
	case !logOK:
		clause = "database"
	}
	v.Count("classified_"+map[bool]string{true: "must-reject", false: "unclassified-acceptable"}[clause != ""], 1)

	// ---- deliver ----
	delivered := false
	var colluder *entry.Entry
	switch route {
	case "announce":
		delivered = e.W.InjectPub(A.P, R, db.Addr, HeadsMsg(db.Addr, m))
	case "exchange":
		delivered = e.W.InjectDirect(A.P, R, HeadsMsg(db.Addr, m))
	case "sync":
		ctx, cancel := context.WithTimeout(bg, 30*time.Second)
		defer cancel()
		_ = sR.Sync(ctx, []ipfslog.Entry{m})
		delivered = true
	case "ancestor":
		col, err := HonestEntry(C, db.Addr, opPayload(typ, 60, "c"), append([]cid.Cid{m.Hash}, heads...), nil, maxT+10)
		if err != nil {
			return fw.Verdict{Status: fw.Inconclusive, What: "colluder: " + err.Error()}
		}
		colluder = col
		ctx, cancel := context.WithTimeout(bg, 30*time.Second)
		defer cancel()
		_ = sR.Sync(ctx, []ipfslog.Entry{col})
		delivered = true
	}
	if !e.W.Flush() {
		return fw.Verdict{Status: fw.Inconclusive, What: "rest not reached after delivery", Sig: v.Sig}
	}
	if clause != "" {
		// the same must hold after the replica restarts and loads its log from its cached heads
		R.Stop()
		e.W.Settle()
		if err := R.Start(); err == nil {
			octx, ocancel := context.WithTimeout(bg, 20*time.Second)
			s2, err := R.DB.Open(octx, db.Addr, &iface.CreateDBOptions{})
			ocancel()
			if err == nil {
				R.Track(s2)
				sR = s2
				lerr := s2.Load(bg, -1)
				e.W.Flush()
				if os.Getenv("VERIF_VERBOSE") != "" {
					fmt.Fprintf(os.Stderr, "after restart: load err=%v entries=%d cache=%.300s\n   mutated=%s true=%s\n", lerr, s2.OpLog().Len(), cacheHeads(s2), m.Hash, trueHash)
				}
				v.Count("must_reject_checks_after_restart", 1)
				for _, h := range []cid.Cid{m.Hash, trueHash} {
					got, ok := s2.OpLog().Get(h)
					if !ok {
						for _, en := range s2.OpLog().Values().Slice() {
							if en.GetHash().Equals(h) {
								got, ok = en, true
							}
						}
					}
					if !ok || (sameContent(got, target) && !sameContent(got, m)) {
						continue
					}
					return fw.Verdict{Status: fw.Violated, Key: "merged-after-restart/" + clause + "/" + mut, NonTrivial: true, Sig: v.Sig,
						What: fmt.Sprintf("after the replica was closed, reopened and loaded, the mutated entry (%s, hash %s, route %s; violates clause %q) is in its log", mut, mode, route, clause)}
				}
				sn2 := TakeSnap(typ, s2, R.Idx)
				if ModelView(typ, sn2.Entries, sn2.Order) != sn2.View {
					return fw.Verdict{Status: fw.Violated, Key: "view-affected-after-restart/" + mut, NonTrivial: true, Sig: v.Sig, What: "view is not the replay of the log after restart"}
				}
			}
		}
	}
	// ---- marker ----
	mop, err := ApplyOp(bg, sC, honestOp(typ, 300))
	if err != nil {
		return fw.Verdict{Status: fw.Inconclusive, What: "marker: " + err.Error()}
	}
	if !e.W.Flush() {
		return fw.Verdict{Status: fw.Inconclusive, What: "rest not reached after marker", Sig: v.Sig}
	}
	markerOK := logHas(sR, mop.GetEntry().GetHash())
	if markerOK {
		v.Count("markers_effective", 1)
	}
	v.NonTrivial = clause != "" && delivered && markerOK
	// ---- oracle ----
	if clause != "" {
		v.Count("must_reject_checks", 1)
		for _, h := range []cid.Cid{m.Hash, trueHash} {
			got, ok := sR.OpLog().Get(h)
			if !ok {
				continue
			}
			// The replicator fetches entries by CID. If the claimed hash is the CID of the
			// genuine, un-mutated entry, finding THAT content in the log is not a violation
			// of C04 (the entry that was merged hashes to its address and is validly signed);
			// finding the mutated content is.
			if sameContent(got, target) && !sameContent(got, m) {
				v.Count("genuine_original_fetched_by_cid", 1)
				continue
			}
			which := "claimed"
			if h.Equals(trueHash) {
				which = "true"
			}
			return fw.Verdict{Status: fw.Violated, Key: "merged/" + clause + "/" + mut, NonTrivial: true, Sig: v.Sig,
				What: fmt.Sprintf("mutated entry (%s, hash %s, route %s; violates clause %q) is in the replica's log under its %s hash", mut, mode, route, clause, which)}
		}
		after := TakeSnap(typ, sR, R.Idx)
		// previous entries all still there, in the same relative order
		if !IsSubsequence(base.Order, after.Order) {
			return fw.Verdict{Status: fw.Violated, Key: "valid-entries-affected/" + mut, NonTrivial: true, Sig: v.Sig, What: "entries the replica held before the delivery are missing or reordered"}
		}
		if ModelView(typ, after.Entries, after.Order) != after.View {
			return fw.Verdict{Status: fw.Violated, Key: "view-affected/" + mut, NonTrivial: true, Sig: v.Sig, What: "view is not the replay of the log after the delivery"}
		}
		// nothing unexpected: only base, the valid chain below the target, the marker
		okSet := map[string]bool{mop.GetEntry().GetHash().String(): true, target.Hash.String(): true}
		if colluder != nil {
			okSet[colluder.Hash.String()] = true // a valid entry of an authorised writer, whatever it points to
		}
		for _, b := range below {
			okSet[b.Hash.String()] = true
		}
		for _, h := range after.Order {
			if !okSet[h] && base.Entries[h] == nil {
				// the un-mutated original may be fetched by its genuine CID only if it was announced: it was not
				return fw.Verdict{Status: fw.Violated, Key: "unexpected-entry/" + mut, NonTrivial: true, Sig: v.Sig, What: fmt.Sprintf("entry %s (payload %s, log id %s, author %s) appeared in the log although only a %s-violating entry was delivered", short(h), after.Entries[h].Payload, after.Entries[h].LogID, short(after.Entries[h].Author), clause)}
			}
		}
	}
	v.Status = fw.Held
	v.Sample = map[string]interface{}{"mutation": mut, "hash": mode, "route": route, "position": pos, "classifier": map[string]bool{"hash_consistent": hashOK, "signature_valid": sigOK, "log_id_matches": logOK}, "clause": clause, "marker_effective": markerOK}
	return v
}

// sameContent compares everything but the claimed hash.
func sameContent(a ipfslog.Entry, b *entry.Entry) bool {
	ja, _ := json.Marshal(stripHash(a))
	jb, _ := json.Marshal(stripHash(b))
	return string(ja) == string(jb)
}

func stripHash(e ipfslog.Entry) *entry.Entry {
	c := copyEntry(e.(*entry.Entry))
	c.Hash = cid.Undef
	if c.Identity != nil {
		c.Identity.Provider = nil
	}
	if c.Next == nil {
		c.Next = []cid.Cid{}
	}
	if c.Refs == nil {
		c.Refs = []cid.Cid{}
	}
	return c
}

var _ iface.Store
