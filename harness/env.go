package main

import (
	"context"
	"encoding/hex"
	"encoding/json"
	"fmt"
	"os"
	"sort"
	"strings"
	"time"

	ipfslog "berty.tech/go-ipfs-log"
	"berty.tech/go-orbit-db/accesscontroller"
	"berty.tech/go-orbit-db/iface"
	"berty.tech/go-orbit-db/stores/operation"
	"berty.tech/go-orbit-db/stores/replicator"
	"berty.tech/go-orbit-db/verifhook"
	cid "github.com/ipfs/go-cid"
	"github.com/libp2p/go-libp2p/p2p/host/eventbus"

	"verifharness/hk"
	"verifharness/sim"
)

var bg = context.Background()

// Env is one case's world.
type Env struct {
	W       *sim.World
	H       *hk.H
	closers []func()
}

// OnClose registers something to close before the world (stores built outside an instance).
func (e *Env) OnClose(f func()) { e.closers = append(e.closers, f) }

func NewEnv() *Env {
	h := hk.Global
	h.Reset()
	verifhook.SetHandler(h)
	return &Env{W: sim.NewWorld(h), H: h}
}

// Close tears the world down and waits for hooked stragglers to finish.
func (e *Env) Close() {
	e.H.ClearPoints()
	e.H.ClearObservers()
	e.W.SetGate(nil)
	for _, f := range e.closers {
		f()
	}
	e.W.Close()
	// no goroutine created by go-orbit-db may survive into the next case: a
	// straggler calling End after Reset would unbalance the pending counter
	for i := 0; i < 300; i++ {
		if len(orbitGoroutines()) == 0 {
			break
		}
		time.Sleep(10 * time.Millisecond)
		if i == 299 && os.Getenv("VERIF_VERBOSE") != "" {
			fmt.Fprintf(os.Stderr, "census: stragglers %v\n", orbitGoroutines())
		}
	}
	// wait for the hook traffic of exiting goroutines to stop
	last := e.H.Generation()
	stable := 0
	for i := 0; i < 400 && stable < 10; i++ {
		time.Sleep(2 * time.Millisecond)
		g := e.H.Generation()
		if g == last {
			stable++
		} else {
			stable = 0
			last = g
		}
	}
	e.H.Reset()
}

// StableRebase waits until the hook traffic has stopped for a while and only
// then declares the remaining pending count residue of consumers that have
// exited (a store closed while its instance lives on).
func (e *Env) StableRebase() {
	last := e.H.Generation()
	stable := 0
	for i := 0; i < 1000 && stable < 25; i++ {
		time.Sleep(2 * time.Millisecond)
		if g := e.H.Generation(); g == last {
			stable++
		} else {
			stable, last = 0, g
		}
	}
	e.H.Rebase()
}

// ---- databases ----

const (
	tEvent = "eventlog"
	tKV    = "keyvalue"
	tDocs  = "docstore"
)

var storeTypes = []string{tEvent, tKV, tDocs}

func writeAC(ids ...string) accesscontroller.ManifestParams {
	ac := accesscontroller.NewEmptyManifestParams()
	ac.SetAccess("write", ids)
	return ac
}

// DB is one logical database replicated on several peers.
type DB struct {
	Type    string
	Addr    string
	Name    string
	Stores  map[int]iface.Store // by peer index
	Writers []string
}

// CreateDB creates the database on creator and opens it on the others.
func (e *Env) CreateDB(name, typ string, creator *sim.Peer, others []*sim.Peer, writers []string) (*DB, error) {
	opts := &iface.CreateDBOptions{}
	if writers != nil {
		opts.AccessController = writeAC(writers...)
	}
	s, err := creator.DB.Create(bg, name, typ, opts)
	if err != nil {
		return nil, fmt.Errorf("create: %w", err)
	}
	creator.Track(s)
	db := &DB{Type: typ, Addr: s.Address().String(), Name: name, Stores: map[int]iface.Store{creator.Idx: s}, Writers: writers}
	for _, p := range others {
		if err := e.OpenOn(db, p); err != nil {
			return nil, err
		}
	}
	return db, nil
}

func (e *Env) OpenOn(db *DB, p *sim.Peer) error {
	ctx, cancel := context.WithTimeout(bg, 20*time.Second)
	defer cancel()
	s, err := p.DB.Open(ctx, db.Addr, &iface.CreateDBOptions{})
	if err != nil {
		return fmt.Errorf("open on %s: %w", p.Name, err)
	}
	p.Track(s)
	db.Stores[p.Idx] = s
	return nil
}

func idsOf(ps ...*sim.Peer) []string {
	var out []string
	for _, p := range ps {
		out = append(out, p.DB.Identity().ID)
	}
	return out
}

// ---- operations ----

type Doc struct {
	ID  string `json:"_id"`
	N   int    `json:"n"`
	Tag string `json:"tag"`
}

type Op struct {
	Kind string `json:"k"` // add put del putall putbatch
	Key  string `json:"key,omitempty"`
	Val  []byte `json:"val,omitempty"`
	Docs []Doc  `json:"docs,omitempty"`
}

func (o Op) String() string {
	switch o.Kind {
	case "add":
		return "add(" + string(o.Val) + ")"
	case "put":
		if o.Docs != nil {
			return fmt.Sprintf("put(%s,n=%d)", o.Docs[0].ID, o.Docs[0].N)
		}
		return fmt.Sprintf("put(%q,%x)", o.Key, o.Val)
	case "del":
		return fmt.Sprintf("del(%q)", o.Key)
	default:
		ids := []string{}
		for _, d := range o.Docs {
			ids = append(ids, fmt.Sprintf("%s:%d", d.ID, d.N))
		}
		return o.Kind + "(" + strings.Join(ids, ",") + ")"
	}
}

func docMap(d Doc) map[string]interface{} {
	return map[string]interface{}{"_id": d.ID, "n": float64(d.N), "tag": d.Tag}
}

// ApplyOp executes op on the store; it returns the hashes of the entries the
// call reported (the returned operation's entry), and the error.
func ApplyOp(ctx context.Context, s iface.Store, op Op) (operation.Operation, error) {
	switch st := s.(type) {
	case iface.EventLogStore:
		return st.Add(ctx, op.Val)
	case iface.KeyValueStore:
		if op.Kind == "del" {
			return st.Delete(ctx, op.Key)
		}
		return st.Put(ctx, op.Key, op.Val)
	case iface.DocumentStore:
		switch op.Kind {
		case "del":
			return st.Delete(ctx, op.Key)
		case "put":
			return st.Put(ctx, docMap(op.Docs[0]))
		case "putbatch":
			vals := []interface{}{}
			for _, d := range op.Docs {
				vals = append(vals, docMap(d))
			}
			return st.PutBatch(ctx, vals)
		case "putall":
			vals := []interface{}{}
			for _, d := range op.Docs {
				vals = append(vals, docMap(d))
			}
			return st.PutAll(ctx, vals)
		}
	}
	return nil, fmt.Errorf("bad op %v for %T", op, s)
}

// ---- snapshots of a replica ----

type EntryInfo struct {
	Hash    string
	Time    int
	ClockID string // hex
	Next    []string
	Refs    []string
	Payload []byte
	Author  string // identity id
	LogID   string
}

func infoOf(e ipfslog.Entry) *EntryInfo {
	ei := &EntryInfo{Hash: e.GetHash().String(), Payload: e.GetPayload(), LogID: e.GetLogID()}
	if c := e.GetClock(); c != nil && c.Defined() {
		ei.Time = c.GetTime()
		ei.ClockID = hex.EncodeToString(c.GetID())
	}
	for _, n := range e.GetNext() {
		ei.Next = append(ei.Next, n.String())
	}
	for _, n := range e.GetRefs() {
		ei.Refs = append(ei.Refs, n.String())
	}
	if id := e.GetIdentity(); id != nil {
		ei.Author = id.ID
	}
	return ei
}

type Snap struct {
	Peer     int
	Order    []string
	Heads    []string
	Entries  map[string]*EntryInfo
	InLog    map[string]bool // GetEntries (may differ from Order when holes exist)
	View     string
	Progress int
	Max      int
}

func (s *Snap) SetKey() string {
	hs := append([]string{}, s.Order...)
	sort.Strings(hs)
	return fw_hash(hs)
}

func fw_hash(ss []string) string {
	return hashStrings(ss)
}

// TakeSnap reads everything a user can read from the replica.
func TakeSnap(typ string, s iface.Store, peer int) *Snap {
	sn := &Snap{Peer: peer, Entries: map[string]*EntryInfo{}, InLog: map[string]bool{}}
	log := s.OpLog()
	for _, e := range log.Values().Slice() {
		ei := infoOf(e)
		sn.Order = append(sn.Order, ei.Hash)
		sn.Entries[ei.Hash] = ei
	}
	for _, e := range log.GetEntries().Slice() {
		sn.InLog[e.GetHash().String()] = true
		if _, ok := sn.Entries[e.GetHash().String()]; !ok {
			sn.Entries[e.GetHash().String()] = infoOf(e)
		}
	}
	for _, h := range log.Heads().Slice() {
		sn.Heads = append(sn.Heads, h.GetHash().String())
	}
	sort.Strings(sn.Heads)
	sn.View = ViewOf(typ, s)
	sn.Progress = s.ReplicationStatus().GetProgress()
	sn.Max = s.ReplicationStatus().GetMax()
	return sn
}

// ViewOf returns the canonical text of the user-visible state.
func ViewOf(typ string, s iface.Store) string {
	switch st := s.(type) {
	case iface.KeyValueStore:
		return canonKV(st.All())
	case iface.DocumentStore:
		docs, err := st.Query(bg, func(interface{}) (bool, error) { return true, nil })
		if err != nil {
			return "ERR:" + err.Error()
		}
		return canonDocs(docs)
	case iface.EventLogStore:
		n := -1
		ops, err := st.List(bg, &iface.StreamOptions{Amount: &n})
		if err != nil {
			return "ERR:" + err.Error()
		}
		var sb strings.Builder
		for _, op := range ops {
			fmt.Fprintf(&sb, "%s:%x\n", op.GetEntry().GetHash().String(), op.GetValue())
		}
		return sb.String()
	}
	return "?"
}

func canonKV(m map[string][]byte) string {
	keys := make([]string, 0, len(m))
	for k := range m {
		keys = append(keys, k)
	}
	sort.Strings(keys)
	var sb strings.Builder
	for _, k := range keys {
		fmt.Fprintf(&sb, "%q=%x\n", k, m[k])
	}
	return sb.String()
}

func canonDocs(docs []interface{}) string {
	var out []string
	for _, d := range docs {
		b, _ := json.Marshal(d) // maps are marshalled with sorted keys
		out = append(out, string(b))
	}
	sort.Strings(out)
	return strings.Join(out, "\n")
}

func headsOf(s iface.Store) []ipfslog.Entry {
	return s.OpLog().Heads().Slice()
}

func mustCid(s string) cid.Cid {
	c, err := cid.Decode(s)
	if err != nil {
		panic(err)
	}
	return c
}

type operationT = operation.Operation

func jsonUnmarshal(b []byte, v interface{}) error { return json.Unmarshal(b, v) }

func raceBuild() bool { return os.Getenv("VERIF_RACE") == "1" }

func logHas(s iface.Store, c cid.Cid) bool {
	_, ok := s.OpLog().Get(c)
	return ok
}

func replState(s iface.Store) (string, bool) {
	if vs, ok := s.Replicator().(replicator.VerifStater); ok {
		return fmt.Sprintf("%+v", vs.VerifState()), true
	}
	return "", false
}

var stderrW = os.Stderr

func busBuf(n int) func(interface{}) error { return eventbus.BufSize(n) }
