package main

import (
	"context"
	"errors"
	"fmt"
	"math/rand"
	"sync"
	"time"

	logiface "berty.tech/go-ipfs-log/iface"
	"berty.tech/go-orbit-db/iface"
	cid "github.com/ipfs/go-cid"
	format "github.com/ipfs/go-ipld-format"
	coreiface "github.com/ipfs/kubo/core/coreiface"

	"verifharness/fw"
	"verifharness/sim"
)

// ---- C11, load requests: Store.Load from the local cache aborted part-way ----

// faultIO is the store's entry codec (CreateDBOptions.IO) with a switch: when
// armed, the k-th entry read of the request in progress either cancels that
// request's context or fails (that read, or that block for the rest of the
// request).
type faultIO struct {
	logiface.IOPreSign // ipfs-log's Verify needs the codec's PreSign
	mu                 sync.Mutex
	mode               string // "", "cancel", "read-error", "block-error"
	k                  int
	seen               int
	cancel             context.CancelFunc
	failCid            string
	hit                bool
	reads              int
	slow               time.Duration // every read takes this long (the final request of some cases)
}

func (f *faultIO) arm(mode string, k int, cancel context.CancelFunc) {
	f.mu.Lock()
	f.mode, f.k, f.seen, f.cancel, f.failCid, f.hit = mode, k, 0, cancel, "", false
	f.mu.Unlock()
}

func (f *faultIO) disarm() bool {
	f.mu.Lock()
	defer f.mu.Unlock()
	f.mode = ""
	return f.hit
}

func (f *faultIO) Read(ctx context.Context, ipfs coreiface.CoreAPI, c cid.Cid) (format.Node, error) {
	f.mu.Lock()
	if d := f.slow; d > 0 {
		f.mu.Unlock()
		time.Sleep(d)
		f.mu.Lock()
	}
	f.reads++
	if f.mode != "" {
		f.seen++
		if f.failCid != "" && f.failCid == c.String() {
			f.mu.Unlock()
			return nil, errors.New("verif: injected read failure")
		}
		if f.seen == f.k {
			f.hit = true
			switch f.mode {
			case "cancel":
				cancel := f.cancel
				f.mu.Unlock()
				cancel()
				return nil, context.Canceled
			case "read-error":
				f.mu.Unlock()
				return nil, errors.New("verif: injected read failure")
			case "block-error":
				f.failCid = c.String()
				f.mu.Unlock()
				return nil, errors.New("verif: injected read failure")
			}
		}
	}
	f.mu.Unlock()
	if err := ctx.Err(); err != nil {
		return nil, err
	}
	return f.IOPreSign.Read(ctx, ipfs, c)
}

var c11LoadModes = []string{"cancel", "read-error", "block-error", "deadline"}

func c11LoadCases(tier string, rng *rand.Rand, idx *int) []fw.Case {
	var out []fw.Case
	lens := []int{6, 40}
	ks := []int{1, 2, 5}
	if tier == "thorough" {
		lens = []int{6, 17, 40, 80}
		ks = []int{1, 2, 3, 5, 9, 30}
	}
	for _, mode := range c11LoadModes {
		for _, n := range lens {
			for _, k := range ks {
				if k > n || (mode == "deadline" && k != ks[0]) {
					continue
				}
				out = append(out, fw.Case{Idx: *idx, Seed: rng.Int63(), Kind: "load", P: map[string]interface{}{
					"mode": mode, "len": n, "k": k, "aborts": 1 + (*idx)%3, "shape": []string{"chain", "two-heads"}[(*idx/2)%2], "newer": (*idx)%2 == 0, "type": storeTypes[*idx%3],
				}})
				*idx++
			}
		}
	}
	return out
}

func c11LoadRun(c fw.Case) fw.Verdict {
	e := NewEnv()
	defer e.Close()
	v := fw.Verdict{}
	rng := rand.New(rand.NewSource(c.Seed))
	typ, n, mode, k, aborts, shape := c.Str("type", tEvent), c.Int("len", 6), c.Str("mode", "cancel"), c.Int("k", 1), c.Int("aborts", 1), c.Str("shape", "chain")
	P, err := e.W.AddPeer(sim.PeerOpts{OnDisk: true})
	if err != nil {
		return fw.Verdict{Status: fw.Inconclusive, What: err.Error()}
	}
	var others []*sim.Peer
	if shape == "two-heads" {
		o, err := e.W.AddPeer(sim.PeerOpts{})
		if err != nil {
			return fw.Verdict{Status: fw.Inconclusive, What: err.Error()}
		}
		others = append(others, o)
	}
	db, err := e.CreateDB("c11l", typ, P, others, idsOf(append([]*sim.Peer{P}, others...)...))
	if err != nil {
		return fw.Verdict{Status: fw.Inconclusive, What: "create: " + err.Error()}
	}
	sP := db.Stores[P.Idx]
	e.W.Flush()
	for i := 0; i < n; i++ {
		if _, err := ApplyOp(bg, sP, uniqueKeyOp(typ, i)); err != nil {
			return fw.Verdict{Status: fw.Inconclusive, What: err.Error()}
		}
	}
	for _, o := range others {
		// a replicated branch next to the local one: two persisted heads
		e.W.Settle()
		e.W.DropAll()
		for i := 0; i < 3+rng.Intn(5); i++ {
			if _, err := ApplyOp(bg, db.Stores[o.Idx], uniqueKeyOp(typ, 500+i)); err != nil {
				return fw.Verdict{Status: fw.Inconclusive, What: err.Error()}
			}
		}
		e.W.Settle()
		e.W.DropAll()
		_ = sP.Sync(bg, cloneHeads(headsOf(db.Stores[o.Idx])))
		e.W.Flush()
	}
	full := TakeSnap(typ, sP, P.Idx)
	total := len(full.Order)
	P.Stop()
	e.W.Settle()
	if err := P.Start(); err != nil {
		return fw.Verdict{Status: fw.Inconclusive, What: "restart: " + err.Error()}
	}
	fio := &faultIO{IOPreSign: cborIO().(logiface.IOPreSign)}
	octx, ocancel := context.WithTimeout(bg, 20*time.Second)
	s2, err := P.DB.Open(octx, db.Addr, &iface.CreateDBOptions{IO: fio})
	ocancel()
	if err != nil {
		return fw.Verdict{Status: fw.Inconclusive, What: "reopen: " + err.Error()}
	}
	P.Track(s2)
	reached := 0
	var lens []int
	for a := 0; a < aborts; a++ {
		ctx, cancel := context.WithCancel(bg)
		kk := k + a // a later aborted request gets a little further
		switch mode {
		case "deadline":
			cancel()
			ctx, cancel = context.WithTimeout(bg, time.Duration(50+rng.Intn(400))*time.Microsecond)
		default:
			fio.arm(mode, kk, cancel)
		}
		_ = s2.Load(ctx, -1)
		cancel()
		if fio.disarm() || mode == "deadline" {
			reached++
		}
		e.W.Settle()
		lens = append(lens, s2.OpLog().Len())
	}
	missingBefore := total - s2.OpLog().Len()
	if l := s2.OpLog().Len(); l > 0 && l < total {
		v.Count("final_loads_over_a_partial_log", 1)
		if typ != tEvent {
			v.Count("final_loads_over_a_partial_log_with_a_snapshot_index", 1)
		}
	}
	if c.Bool("newer") {
		// newer entries are persisted through a sibling handle before the final request
		sib, err := P.DB.Open(bg, db.Addr, &iface.CreateDBOptions{})
		if err == nil {
			P.Track(sib)
			defer s2.Close()
			defer sib.Close()
			if sib.Load(bg, -1) == nil {
				for i := 0; i < 2; i++ {
					_, _ = ApplyOp(bg, sib, uniqueKeyOp(typ, 900+i))
				}
				e.W.Settle()
				full = TakeSnap(typ, sib, P.Idx)
				total = len(full.Order)
			}
		}
	}
	// the final, uncancelled request; in three cases of four its entry reads are slow, so that whatever the
	// request leaves to be done after it has returned is still under way when the result is judged
	if c.Idx%4 != 0 {
		fio.mu.Lock()
		fio.slow = time.Duration(800+rng.Intn(1500)) * time.Microsecond
		fio.mu.Unlock()
		v.Count("final_loads_with_slow_reads", 1)
	}
	fctx, fcancel := context.WithTimeout(bg, 60*time.Second)
	ferr := s2.Load(fctx, -1)
	// Load is a synchronous request: what it makes visible is there when it returns nil
	lenAtReturn := s2.OpLog().Len()
	viewAtReturn := ViewOf(typ, s2)
	fcancel()
	e.W.Settle()
	v.Sig = fw.HashSig("load", n, mode, k, aborts, shape, c.Bool("newer"), typ)
	v.NonTrivial = reached > 0 && missingBefore > 0
	v.Count("load_requests_aborted", int64(aborts))
	v.Count("load_abort_points_reached", int64(reached))
	key := fmt.Sprintf("load/abort=%s", mode)
	if ferr != nil {
		return fw.Verdict{Status: fw.Violated, Key: key + "/outcome=final-load-error", NonTrivial: true, Sig: v.Sig,
			What: fmt.Sprintf("after %d load request(s) aborted by %s at read %d, the final uncancelled Load returns %v", aborts, mode, k, ferr)}
	}
	if lenAtReturn < total || viewAtReturn != full.View {
		return fw.Verdict{Status: fw.Violated, Key: key + "/outcome=final-load-returned-before-the-entries-were-visible", NonTrivial: true, Sig: v.Sig,
			What: fmt.Sprintf("a persisted %s log of %d entries; after %d aborted request(s) (%v entries left in the log) the final uncancelled Load(-1) returned nil while the log held %d entries (view complete: %v)", shape, total, aborts, lens, lenAtReturn, viewAtReturn == full.View)}
	}
	got := TakeSnap(typ, s2, P.Idx)
	have := map[string]bool{}
	for _, h := range got.Order {
		have[h] = true
	}
	miss := 0
	for _, h := range full.Order {
		if !have[h] {
			miss++
		}
	}
	if miss > 0 {
		return fw.Verdict{Status: fw.Violated, Key: key + "/outcome=entries-missing-after-final-load", NonTrivial: true, Sig: v.Sig,
			What: fmt.Sprintf("a persisted %s log of %d entries; %d load request(s) aborted by %s at read %d left %v entries in the log; after the final uncancelled Load(-1) %d entries are still missing (%d visible)", shape, total, aborts, mode, k, lens, miss, len(got.Order))}
	}
	if got.View != full.View {
		return fw.Verdict{Status: fw.Violated, Key: key + "/outcome=view-differs", NonTrivial: true, Sig: v.Sig, What: "after the final Load the view differs from the one before the restart"}
	}
	v.Status = fw.Held
	v.Sample = map[string]interface{}{"family": "load", "mode": mode, "log": total, "k": k, "aborted_requests": aborts, "entries_after_each_abort": lens, "shape": shape}
	return v
}

// uniqueKeyOp is honestOp with a key of its own per entry: an entry that is in the log but was never
// indexed then shows in the view (with repeated keys a newer entry on the same key would mask it).
func uniqueKeyOp(typ string, n int) Op {
	op := honestOp(typ, n)
	switch typ {
	case tKV:
		op.Key = fmt.Sprintf("u%d", n)
	case tDocs:
		op.Key = fmt.Sprintf("u%d", n)
		op.Docs[0].ID = op.Key
	}
	return op
}
