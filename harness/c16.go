package main

import (
	"context"
	"fmt"
	"math/rand"
	"sync"
	"sync/atomic"
	"time"

	"berty.tech/go-orbit-db/events"
	"berty.tech/go-orbit-db/iface"
	"berty.tech/go-orbit-db/stores"
	cid "github.com/ipfs/go-cid"
	"github.com/libp2p/go-libp2p/p2p/host/eventbus"

	"verifharness/fw"
	"verifharness/sim"
)

func init() {
	fw.Register(&fw.Property{
		ID:    "C16",
		Level: "exploration",
		Rule: "cases = one store receiving 50-400 sequential local writes and 5-30 merged remote batches while 1-4 subscribers of each kind (event-bus subscription with small and default buffers; legacy Subscribe; legacy GlobalChannel) read with pacing in {eager, random sleeps, stall until the 16-slot buffers are full then drain, drain one then stall, (legacy, >= 200 writes) fall t1 writes behind, read r <= 30 events, fall behind until the last write, then drain}; schedule points are driven by a handler in {no-op, PRNG delay at the legacy dequeue, hold the legacy dequeuing goroutine until the bus goroutine has offered the next event, hold 1 in 3 index rebuilds 0.2-2 ms between listing the log and publishing the view}; in every second case a colluding authorised writer also announces heads built on an entry of an identity without write access (that entry is refused by the merge, the writer's own entry above it is accepted). A lockstep sub-mode (writer waits for the subscriber's acknowledgement) makes the state at receipt stable so that the view can be compared with the replay. " +
			"distinct = hash(store type, writes, batches, subscriber kinds and pacing, handler, observed interleaving signature at legacy.after-dequeue); non-trivial = >= 50 write events were delivered to >= 2 subscribers and, for stalling subscribers, the overflow path was taken (legacy.after-dequeue arrivals > 0)",
		Assumptions: []string{"unique entry hashes identify events", "writes are issued sequentially by one goroutine (concurrent writers are C17)"},
		Cases:       c16Cases,
		Run:         c16Run,
		MinDistinct: map[string]int{"quick": 20, "thorough": 150},
		Batch:       6,
		CaseTimeout: 240 * time.Second,
		Explain:     "oracle: (1) each successful local write <-> exactly one EventWrite carrying that entry and this database's address; every remotely merged entry appears in some EventReplicated; (2) at receipt the log contains the announced entries (and in lockstep mode the view equals the replay of the log); (3) every subscriber sees the write events in write order, none missing, none twice; (4) no EventReplicated announces an entry of a refused log.",
	})
}

func c16Cases(tier string, seed int64) []fw.Case {
	n := 30
	if tier == "thorough" {
		n = 300
	}
	rng := rand.New(rand.NewSource(seed*533000389 + 16))
	var out []fw.Case
	handlers := []string{"none", "delay", "hold", "index-hold"}
	for i := 0; i < n; i++ {
		out = append(out, fw.Case{Idx: i, Seed: rng.Int63(), P: map[string]interface{}{
			"type": storeTypes[i%3], "writes": 50 + rng.Intn(350), "batches": 5 + rng.Intn(12), "handler": handlers[i%4], "lockstep": i%5 == 4,
			"nbus": 1 + rng.Intn(2), "nlegacy": 1 + rng.Intn(3), "poison": i%2 == 1,
		}})
	}
	return out
}

type c16Sub struct {
	name    string
	pacing  string
	mu      sync.Mutex
	writes  []string // hashes of EventWrite received, in order
	repl    map[string]bool
	bad     *Violation
	ack     chan string
	n       int64
	stalled int32
	// deep-stall: stall until t1 writes were issued, read r events, stall until every write was issued
	written *int64
	t1, r   int64
	total   int64
	phase   int
	readB   int64
}

func (s *c16Sub) fail(key, what string) {
	s.mu.Lock()
	if s.bad == nil {
		s.bad = &Violation{key, what}
	}
	s.mu.Unlock()
}

// handle processes one event as a subscriber would.
func (s *c16Sub) handle(e interface{}, st iface.Store, typ string, addr string, lockstep bool) {
	atomic.AddInt64(&s.n, 1)
	switch ev := e.(type) {
	case stores.EventWrite:
		h := ev.Entry.GetHash()
		if ev.Address.String() != addr {
			s.fail("event-wrong-address", fmt.Sprintf("%s received EventWrite with address %s on database %s", s.name, ev.Address, addr))
		}
		if !logHas(st, h) {
			s.fail("event-ahead-of-state", fmt.Sprintf("%s received EventWrite for %s before the log contains it", s.name, short(h.String())))
		}
		if why := reflects(typ, st, []string{h.String()}); why != "" {
			s.fail("event-ahead-of-state", fmt.Sprintf("%s: at receipt of EventWrite %s: %s", s.name, short(h.String()), why))
		}
		s.mu.Lock()
		s.writes = append(s.writes, h.String())
		s.mu.Unlock()
		if s.ack != nil {
			s.ack <- h.String()
		}
	case stores.EventReplicated:
		for _, en := range ev.Entries {
			if !logHas(st, en.GetHash()) {
				s.fail("event-ahead-of-state", fmt.Sprintf("%s received EventReplicated announcing %s before the log contains it", s.name, short(en.GetHash().String())))
			}
			s.mu.Lock()
			s.repl[en.GetHash().String()] = true
			s.mu.Unlock()
		}
		if ev.Address.String() != addr {
			s.fail("event-wrong-address", fmt.Sprintf("%s received EventReplicated with address %s on database %s", s.name, ev.Address, addr))
		}
		var hs []string
		for _, en := range ev.Entries {
			hs = append(hs, en.GetHash().String())
		}
		if why := reflects(typ, st, hs); why != "" {
			s.fail("event-ahead-of-state", fmt.Sprintf("%s: at receipt of EventReplicated: %s", s.name, why))
		}
	}
}

func (s *c16Sub) pace(rng *rand.Rand, stop <-chan struct{}) {
	switch s.pacing {
	case "eager":
	case "sleepy":
		if rng.Intn(4) == 0 {
			time.Sleep(time.Duration(rng.Intn(600)) * time.Microsecond)
		}
	case "stall-drain":
		// stall for a while every ~40 events, then drain eagerly
		if atomic.LoadInt64(&s.n)%40 == 5 {
			atomic.StoreInt32(&s.stalled, 1)
			select {
			case <-time.After(time.Duration(15+rng.Intn(25)) * time.Millisecond):
			case <-stop:
			}
			atomic.StoreInt32(&s.stalled, 0)
		}
	case "deep-stall":
		wait := func(target int64) {
			for atomic.LoadInt64(s.written) < target {
				select {
				case <-stop:
					return
				case <-time.After(200 * time.Microsecond):
				}
			}
		}
		switch s.phase {
		case 0:
			s.phase = 1
			wait(s.t1)
			s.readB = atomic.LoadInt64(&s.n)
		case 1:
			if atomic.LoadInt64(&s.n)-s.readB >= s.r {
				s.phase = 2
				wait(s.total)
			}
		}
	case "one-then-stall":
		if atomic.LoadInt64(&s.n)%25 == 3 {
			select {
			case <-time.After(time.Duration(8+rng.Intn(10)) * time.Millisecond):
			case <-stop:
			}
		}
	}
}

func c16Run(c fw.Case) fw.Verdict {
	e := NewEnv()
	defer e.Close()
	v := fw.Verdict{}
	rng := rand.New(rand.NewSource(c.Seed))
	typ, nw, nb, handler, lockstep := c.Str("type", tKV), c.Int("writes", 60), c.Int("batches", 5), c.Str("handler", "none"), c.Bool("lockstep")
	P, err := e.W.AddPeer(sim.PeerOpts{})
	if err != nil {
		return fw.Verdict{Status: fw.Inconclusive, What: err.Error()}
	}
	O, err := e.W.AddPeer(sim.PeerOpts{})
	if err != nil {
		return fw.Verdict{Status: fw.Inconclusive, What: err.Error()}
	}
	db, err := e.CreateDB("c16", typ, P, []*sim.Peer{O}, idsOf(P, O))
	if err != nil {
		return fw.Verdict{Status: fw.Inconclusive, What: "create: " + err.Error()}
	}
	sP, sO := db.Stores[P.Idx], db.Stores[O.Idx]
	e.W.Flush()

	// legacy emitter schedule handler
	var interleave []byte
	var imu sync.Mutex
	var holds, pushedWhileHeld int64
	pushSeq := int64(0)
	switch handler {
	case "delay":
		hrng := rand.New(rand.NewSource(c.Seed + 5))
		var hm sync.Mutex
		e.H.SetPoint("legacy.after-dequeue", func(string, []interface{}) {
			hm.Lock()
			d := hrng.Intn(300)
			hm.Unlock()
			imu.Lock()
			interleave = append(interleave, 'd')
			imu.Unlock()
			time.Sleep(time.Duration(d) * time.Microsecond)
		})
	case "hold":
		e.H.SetPoint("legacy.before-push", func(string, []interface{}) {
			atomic.AddInt64(&pushSeq, 1)
			imu.Lock()
			interleave = append(interleave, 'p')
			imu.Unlock()
		})
		e.H.SetPoint("legacy.after-dequeue", func(string, []interface{}) {
			atomic.AddInt64(&holds, 1)
			imu.Lock()
			interleave = append(interleave, 'q')
			imu.Unlock()
			start := atomic.LoadInt64(&pushSeq)
			deadline := time.Now().Add(4 * time.Millisecond)
			for time.Now().Before(deadline) {
				if atomic.LoadInt64(&pushSeq) > start {
					atomic.AddInt64(&pushedWhileHeld, 1)
					time.Sleep(150 * time.Microsecond) // let the bus goroutine finish its push
					return
				}
				time.Sleep(50 * time.Microsecond)
			}
		})
	case "index-hold":
		// hold some index rebuilds between listing the log and publishing the view: a write or a merge
		// that overlaps the rebuild must still not be announced before the view reflects it
		hrng := rand.New(rand.NewSource(c.Seed + 6))
		var hm sync.Mutex
		e.H.SetPoint("index.after-values", func(string, []interface{}) {
			hm.Lock()
			d := 0
			if hrng.Intn(3) == 0 {
				d = 200 + hrng.Intn(1800)
			}
			hm.Unlock()
			if d > 0 {
				atomic.AddInt64(&holds, 1)
				time.Sleep(time.Duration(d) * time.Microsecond)
			}
		})
	}
	var written int64
	poison := c.Bool("poison")
	var X *Adv
	if poison {
		if X, err = NewAdv(e.W, "x"); err != nil {
			return fw.Verdict{Status: fw.Inconclusive, What: "adversary: " + err.Error()}
		}
	}

	ctx, cancel := context.WithCancel(bg)
	defer cancel()
	stop := make(chan struct{})
	var subs []*c16Sub
	var wg sync.WaitGroup
	pacings := []string{"eager", "sleepy", "stall-drain", "one-then-stall"}
	addr := db.Addr
	mkSub := func(name string) *c16Sub {
		s := &c16Sub{name: name, pacing: pacings[rng.Intn(len(pacings))], repl: map[string]bool{}}
		if lockstep {
			s.pacing = "eager"
			s.ack = make(chan string, 4096)
		}
		subs = append(subs, s)
		return s
	}
	for i := 0; i < c.Int("nbus", 1); i++ {
		s := mkSub(fmt.Sprintf("bus%d", i))
		opts := []interface{}{}
		_ = opts
		var sub interface {
			Out() <-chan interface{}
			Close() error
		}
		var err error
		if i%2 == 0 {
			sub, err = sP.EventBus().Subscribe([]interface{}{new(stores.EventWrite), new(stores.EventReplicated)}, eventbus.BufSize(2))
		} else {
			sub, err = sP.EventBus().Subscribe([]interface{}{new(stores.EventWrite), new(stores.EventReplicated)})
		}
		if err != nil {
			return fw.Verdict{Status: fw.Inconclusive, What: "subscribe: " + err.Error()}
		}
		srng := rand.New(rand.NewSource(c.Seed + int64(i) + 100))
		wg.Add(1)
		go func() {
			defer wg.Done()
			defer sub.Close()
			for {
				select {
				case ev := <-sub.Out():
					s.handle(ev, sP, typ, addr, lockstep)
					s.pace(srng, stop)
				case <-ctx.Done():
					return
				}
			}
		}()
	}
	for i := 0; i < c.Int("nlegacy", 1); i++ {
		s := mkSub(fmt.Sprintf("legacy%d", i))
		var ch <-chan events.Event
		if i == 0 {
			ch = sP.GlobalChannel(ctx)
			s.name = "legacy-global"
		} else {
			ch = sP.Subscribe(ctx)
		}
		if !lockstep && nw >= 200 && i == c.Int("nlegacy", 1)-1 {
			// this one falls far behind, reads a little, falls behind again: the emitter's backlog
			// grows while its front is not at the start
			s.pacing = "deep-stall"
			s.written, s.total = &written, int64(nw)
			s.t1, s.r = int64(20+rng.Intn(nw-180)), int64(1+rng.Intn(30))
		}
		srng := rand.New(rand.NewSource(c.Seed + int64(i) + 200))
		wg.Add(1)
		go func() {
			defer wg.Done()
			for ev := range ch {
				s.handle(ev, sP, typ, addr, lockstep)
				s.pace(srng, stop)
			}
		}()
	}

	// workload: sequential writes on P, batches merged from O
	var acked, poisoned []string
	remote := map[string]bool{}
	batchEvery := nw / (nb + 1)
	if batchEvery == 0 {
		batchEvery = 1
	}
	k := 0
	for i := 0; i < nw; i++ {
		op, err := ApplyOp(bg, sP, honestOp(typ, i))
		if err != nil {
			return fw.Verdict{Status: fw.Inconclusive, What: "write: " + err.Error()}
		}
		h := op.GetEntry().GetHash().String()
		acked = append(acked, h)
		atomic.AddInt64(&written, 1)
		if lockstep {
			for _, s := range subs {
				select {
				case got := <-s.ack:
					if got != h {
						s.fail("write-event-order", fmt.Sprintf("%s: expected the event of write %d (%s), got %s", s.name, i, short(h), short(got)))
					}
				case <-time.After(ackWait()):
					s.fail("write-event-lost", fmt.Sprintf("%s: no EventWrite for write %d (%s) within the watchdog", s.name, i, short(h)))
				}
			}
		}
		if (i+1)%batchEvery == 0 && k < nb {
			k++
			for j := 0; j < 1+rng.Intn(3); j++ {
				rop, err := ApplyOp(bg, sO, honestOp(typ, 1000+i*4+j))
				if err != nil {
					return fw.Verdict{Status: fw.Inconclusive, What: "remote write: " + err.Error()}
				}
				remote[rop.GetEntry().GetHash().String()] = true
			}
			if poison && k%2 == 1 {
				// a colluding authorised writer announces a head of its own built on an entry of an
				// identity without write access: that entry is refused by the merge and must not be
				// announced
				xe, err := X.Forge(fNonWriter, db.Addr, opPayload(typ, 5000+i, fmt.Sprintf("px%d", i)), nil, nil, 100000+2*i, nil)
				if err != nil {
					return fw.Verdict{Status: fw.Inconclusive, What: "forge: " + err.Error()}
				}
				oe, err := HonestEntry(O, db.Addr, opPayload(typ, 6000+i, fmt.Sprintf("po%d", i)), []cid.Cid{xe.Hash}, nil, 100001+2*i)
				if err != nil {
					return fw.Verdict{Status: fw.Inconclusive, What: "forge: " + err.Error()}
				}
				// the replicator fetches and merges entry by entry: the writer's own entry is accepted (and
				// must be announced), the entry below it is refused
				poisoned = append(poisoned, xe.Hash.String())
				remote[oe.Hash.String()] = true
				e.W.InjectPub(O, P, db.Addr, HeadsMsg(db.Addr, oe))
			}
			// deliver O's announcements to P (and P's to O) now
			e.W.DeliverAll()
		}
		if !lockstep && rng.Intn(8) == 0 {
			time.Sleep(time.Duration(rng.Intn(300)) * time.Microsecond)
		}
	}
	e.W.Flush()
	// a closing write, issued when every merge has been announced: a subscriber that has received its
	// EventWrite has received every earlier event too (one FIFO per subscriber), however far behind it was
	if op, err := ApplyOp(bg, sP, honestOp(typ, nw+7)); err == nil {
		acked = append(acked, op.GetEntry().GetHash().String())
		atomic.AddInt64(&written, 1)
		if lockstep {
			for _, s := range subs {
				select {
				case <-s.ack:
				case <-time.After(20 * time.Second):
				}
			}
		}
	}
	// let subscribers drain: as long as some subscriber still receives events the wait goes on (a slow
	// consumer under a race build is not a lost event); only when nobody has received anything for a whole
	// window while events are outstanding is the count judged
	window := 20 * time.Second
	if raceBuild() {
		window = 60 * time.Second
	}
	lastTotal, lastChange := int64(-1), time.Now()
	for {
		done := true
		var total int64
		for _, s := range subs {
			s.mu.Lock()
			if len(s.writes) < len(acked) {
				done = false
			}
			s.mu.Unlock()
			total += atomic.LoadInt64(&s.n)
		}
		if done {
			break
		}
		if total != lastTotal {
			lastTotal, lastChange = total, time.Now()
		} else if time.Since(lastChange) > window {
			break
		}
		time.Sleep(2 * time.Millisecond)
	}
	time.Sleep(5 * time.Millisecond)
	close(stop)
	cancel()
	sP.UnsubscribeAll()
	wg.Wait()
	e.H.ClearPoints()

	arr := e.H.Arrivals()
	v.Count("legacy_overflow_dequeues", arr["legacy.after-dequeue"])
	v.Count("legacy_holds", holds)
	v.Count("legacy_pushes_while_dequeuer_held", pushedWhileHeld)
	v.Count("write_events_expected_per_subscriber", int64(len(acked)))
	imu.Lock()
	isig := fw.HashSig(string(interleave))
	imu.Unlock()
	v.Sig = fw.HashSig(typ, nw, nb, handler, lockstep, len(subs)) + isig
	total := 0
	for _, s := range subs {
		s.mu.Lock()
		got := append([]string{}, s.writes...)
		bad := s.bad
		repl := s.repl
		s.mu.Unlock()
		total += len(got)
		v.Count("write_events_delivered", int64(len(got)))
		if bad != nil {
			return fw.Verdict{Status: fw.Violated, Key: bad.Key + "/" + subKind(s.name), What: bad.What, NonTrivial: true, Sig: v.Sig, Counters: v.Counters}
		}
		// exactly once, in order
		seen := map[string]int{}
		for _, h := range got {
			seen[h]++
		}
		for i, h := range acked {
			if seen[h] == 0 {
				return fw.Verdict{Status: fw.Violated, Key: "write-event-lost/" + subKind(s.name), NonTrivial: true, Sig: v.Sig, Counters: v.Counters,
					What: fmt.Sprintf("%s (%s) never received the EventWrite of write %d of %d (received %d events)", s.name, s.pacing, i, len(acked), len(got))}
			}
			if seen[h] > 1 {
				return fw.Verdict{Status: fw.Violated, Key: "write-event-duplicated/" + subKind(s.name), NonTrivial: true, Sig: v.Sig, Counters: v.Counters,
					What: fmt.Sprintf("%s received the EventWrite of write %d %d times", s.name, i, seen[h])}
			}
		}
		if len(got) != len(acked) {
			return fw.Verdict{Status: fw.Violated, Key: "write-event-spurious/" + subKind(s.name), NonTrivial: true, Sig: v.Sig, Counters: v.Counters,
				What: fmt.Sprintf("%s received %d write events for %d writes", s.name, len(got), len(acked))}
		}
		for i := range acked {
			if got[i] != acked[i] {
				j := indexOf(got, acked[i])
				return fw.Verdict{Status: fw.Violated, Key: "write-event-order/" + subKind(s.name), NonTrivial: true, Sig: v.Sig, Counters: v.Counters,
					What: fmt.Sprintf("%s (%s, handler %s) received the event of write %d at position %d: events are not in emission order", s.name, s.pacing, handler, i, j)}
			}
		}
		// every remotely merged entry announced
		for h := range remote {
			if logHas(sP, mustCid(h)) && !repl[h] {
				return fw.Verdict{Status: fw.Violated, Key: "replicated-entry-not-announced/" + subKind(s.name), NonTrivial: true, Sig: v.Sig, Counters: v.Counters,
					What: fmt.Sprintf("%s: merged remote entry %s was never part of an EventReplicated", s.name, short(h))}
			}
		}
		v.Count("remote_entries_checked", int64(len(remote)))
		for _, h := range poisoned {
			if repl[h] {
				return fw.Verdict{Status: fw.Violated, Key: "refused-entry-announced/" + subKind(s.name), NonTrivial: true, Sig: v.Sig, Counters: v.Counters,
					What: fmt.Sprintf("%s: an EventReplicated announced %s, an entry the merge refused (its author has no write access)", s.name, short(h))}
			}
		}
	}
	v.Count("refused_entries_offered", int64(len(poisoned)))
	v.Status = fw.Held
	v.NonTrivial = len(acked) >= 50 && len(subs) >= 2
	ps := []string{}
	for _, s := range subs {
		ps = append(ps, s.name+":"+s.pacing)
	}
	v.Sample = map[string]interface{}{"type": typ, "writes": nw, "batches": nb, "subscribers": ps, "handler": handler, "lockstep": lockstep, "overflow_dequeues": arr["legacy.after-dequeue"]}
	return v
}

// ackWait bounds the wait for one acknowledgement of an eager subscriber in lockstep mode.
func ackWait() time.Duration {
	if raceBuild() {
		return 90 * time.Second
	}
	return 30 * time.Second
}

func subKind(name string) string {
	if len(name) >= 3 && name[:3] == "bus" {
		return "bus"
	}
	return "legacy"
}

func indexOf(a []string, x string) int {
	for i, y := range a {
		if y == x {
			return i
		}
	}
	return -1
}

// reflects checks that the store's queries already reflect the announced
// entries. The view is read BEFORE the log: an announced entry that is the
// last operation on a key in the (later) log was also the last one when the
// view was read, so the view must show exactly its effect; keys on which a
// newer operation exists carry no expectation (the store may legitimately be
// in the middle of applying it).
func reflects(typ string, st iface.Store, announced []string) string {
	var kv map[string][]byte
	var docs map[string]string
	var listed map[string]bool
	switch x := st.(type) {
	case iface.KeyValueStore:
		kv = x.All()
	case iface.DocumentStore:
		ds, err := x.Query(bg, func(interface{}) (bool, error) { return true, nil })
		if err != nil {
			return "query failed: " + err.Error()
		}
		docs = map[string]string{}
		for _, d := range ds {
			m, _ := d.(map[string]interface{})
			id, _ := m["_id"].(string)
			docs[id] = canonDocs([]interface{}{d})
		}
	case iface.EventLogStore:
		n := -1
		ops, err := x.List(bg, &iface.StreamOptions{Amount: &n})
		if err != nil {
			return "list failed: " + err.Error()
		}
		listed = map[string]bool{}
		for _, o := range ops {
			listed[o.GetEntry().GetHash().String()] = true
		}
	}
	sn := TakeSnap(typ, st, 0)
	ann := map[string]bool{}
	for _, h := range announced {
		ann[h] = true
		if sn.Entries[h] == nil {
			return "announced entry " + short(h) + " is not in the log"
		}
	}
	switch typ {
	case tEvent:
		for h := range ann {
			if !listed[h] {
				return "List() does not contain announced entry " + short(h)
			}
		}
	case tKV:
		last := map[string]string{}
		for _, h := range sn.Order {
			if o, err := parseOp(sn.Entries[h].Payload); err == nil && o.Key != nil {
				last[*o.Key] = h
			}
		}
		m := ModelKV(sn.Entries, sn.Order)
		for k, h := range last {
			if !ann[h] {
				continue
			}
			want, present := m[k]
			got, have := kv[k]
			if present != have || string(want) != string(got) {
				return fmt.Sprintf("All()[%q]=%x (present=%v) does not reflect announced entry %s (expected %x, present=%v)", k, got, have, short(h), want, present)
			}
		}
	case tDocs:
		last := map[string]string{}
		for _, h := range sn.Order {
			o, err := parseOp(sn.Entries[h].Payload)
			if err != nil {
				continue
			}
			if o.Op == "PUTALL" {
				for _, d := range o.Docs {
					last[d.Key] = h
				}
			} else if o.Key != nil && *o.Key != "" {
				last[*o.Key] = h
			}
		}
		m := ModelDocs(sn.Entries, sn.Order)
		for k, h := range last {
			if !ann[h] {
				continue
			}
			want, present := m[k]
			got, have := docs[k]
			if present != have || (present && canonDocsModel(map[string][]byte{k: want}) != got) {
				return fmt.Sprintf("document %q (present=%v) does not reflect announced entry %s (expected present=%v)", k, have, short(h), present)
			}
		}
	}
	return ""
}
