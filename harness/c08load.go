package main

// C08 (also C16/C17 "acknowledged write is visible"): a FRESH store handle is being filled from disk -
// LoadFromSnapshot or Load - while the application already writes to it (the write is issued when the
// store announces the load with EventLoad, or after a PRNG delay). Loading is a merge: it must never remove
// an entry that was already listed, and every acknowledged write stays listed.

import (
	"context"
	"fmt"
	"math/rand"
	"sync"
	"time"

	"berty.tech/go-orbit-db/iface"
	"berty.tech/go-orbit-db/stores"
	"berty.tech/go-orbit-db/stores/basestore"

	"verifharness/fw"
	"verifharness/sim"
)

func c08LoadCases(tier string, seed int64, from int) []fw.Case {
	n := 12
	if tier == "thorough" {
		n = 96
	}
	rng := rand.New(rand.NewSource(seed*91 + 808))
	var out []fw.Case
	for i := 0; i < n; i++ {
		out = append(out, fw.Case{Idx: from + i, Seed: rng.Int63(), P: map[string]interface{}{
			"mode": "load-race", "route": []string{"snapshot", "load"}[i%2], "entries": []int{30, 120, 250}[(i/2)%3], "trigger": []string{"event", "delay"}[(i/6)%2], "writes": 1 + rng.Intn(3),
		}})
	}
	return out
}

func c08LoadRun(c fw.Case) fw.Verdict {
	e := NewEnv()
	defer e.Close()
	v := fw.Verdict{}
	route, n, trigger, nw := c.Str("route", "snapshot"), c.Int("entries", 30), c.Str("trigger", "event"), c.Int("writes", 1)
	rng := rand.New(rand.NewSource(c.Seed))
	P, err := e.W.AddPeer(sim.PeerOpts{OnDisk: true})
	if err != nil {
		return fw.Verdict{Status: fw.Inconclusive, What: err.Error()}
	}
	db, err := e.CreateDB("c08load", tEvent, P, nil, nil)
	if err != nil {
		return fw.Verdict{Status: fw.Inconclusive, What: "create: " + err.Error()}
	}
	s := db.Stores[P.Idx]
	for i := 0; i < n; i++ {
		if _, err := ApplyOp(bg, s, honestOp(tEvent, i)); err != nil {
			return fw.Verdict{Status: fw.Inconclusive, What: "fill: " + err.Error()}
		}
	}
	before := TakeSnap(tEvent, s, P.Idx)
	if route == "snapshot" {
		sctx, scancel := context.WithTimeout(bg, 60*time.Second)
		_, err := basestore.SaveSnapshot(sctx, s)
		scancel()
		if err != nil {
			return fw.Verdict{Status: fw.Inconclusive, What: "save: " + err.Error()}
		}
	}
	P.Stop()
	e.W.Settle()
	if err := P.Start(); err != nil {
		return fw.Verdict{Status: fw.Inconclusive, What: "restart: " + err.Error()}
	}
	if err := e.OpenOn(db, P); err != nil {
		return fw.Verdict{Status: fw.Inconclusive, What: "reopen: " + err.Error()}
	}
	s2 := db.Stores[P.Idx].(iface.EventLogStore)
	sub, err := s2.EventBus().Subscribe(new(stores.EventLoad))
	if err != nil {
		return fw.Verdict{Status: fw.Inconclusive, What: "subscribe: " + err.Error()}
	}
	defer sub.Close()
	mon := &readMon{typ: tEvent, peer: P.Idx}
	stop := make(chan struct{})
	var wg sync.WaitGroup
	wg.Add(1)
	go func() { // the application's reader
		defer wg.Done()
		for {
			select {
			case <-stop:
				return
			default:
			}
			mon.observe(s2)
			time.Sleep(50 * time.Microsecond)
		}
	}()
	var acked []string
	var wErr error
	loadStarted := make(chan struct{})
	loadDone := make(chan struct{})
	duringLoad := 0
	wg.Add(1)
	go func() { // the application's writer
		defer wg.Done()
		if trigger == "event" {
			select {
			case <-sub.Out():
			case <-time.After(10 * time.Second):
			}
		} else {
			<-loadStarted
			time.Sleep(time.Duration(rng.Intn(3000)) * time.Microsecond)
		}
		for i := 0; i < nw; i++ {
			op, err := s2.Add(bg, []byte(fmt.Sprintf("during-load-%d", i)))
			if err != nil {
				wErr = err
				return
			}
			select {
			case <-loadDone:
			default:
				duringLoad++
			}
			acked = append(acked, op.GetEntry().GetHash().String())
			if _, gerr := s2.Get(bg, op.GetEntry().GetHash()); gerr != nil {
				wErr = fmt.Errorf("acknowledged entry not returned by Get right after the write: %w", gerr)
				return
			}
		}
	}()
	lctx, lcancel := context.WithTimeout(bg, 90*time.Second)
	close(loadStarted)
	if route == "snapshot" {
		err = s2.LoadFromSnapshot(lctx)
	} else {
		err = s2.Load(lctx, -1)
	}
	close(loadDone)
	lcancel()
	// the writer may still be waiting for its trigger (Load emits EventLoad only when there are heads)
	done := make(chan struct{})
	go func() { wg.Wait(); close(done) }()
	time.Sleep(2 * time.Millisecond)
	close(stop)
	select {
	case <-done:
	case <-time.After(30 * time.Second):
		return fw.Verdict{Status: fw.Inconclusive, What: "writer did not finish"}
	}
	e.W.Settle()
	v.Sig = fw.HashSig("load-race", route, n, trigger, nw, duringLoad)
	v.Count("load_race_writes_acknowledged", int64(len(acked)))
	v.Count("load_race_writes_acknowledged_while_loading", int64(duringLoad))
	v.Count("load_race_reader_listing_changes", int64(mon.Trans))
	v.NonTrivial = duringLoad > 0
	if err != nil {
		return fw.Verdict{Status: fw.Violated, Key: "load-race/" + route + "-failed", NonTrivial: true, Sig: v.Sig, What: fmt.Sprintf("%s of a fresh handle failed while the application was writing to it: %v", route, err)}
	}
	if wErr != nil {
		return fw.Verdict{Status: fw.Violated, Key: "load-race/write-failed-or-invisible", NonTrivial: true, Sig: v.Sig, What: fmt.Sprintf("route %s: %v", route, wErr)}
	}
	if vio := mon.judge(nil); vio != nil {
		return fw.Verdict{Status: fw.Violated, Key: "load-race/" + vio.Key, NonTrivial: true, Sig: v.Sig, What: fmt.Sprintf("route %s, %d stored entries: %s", route, n, vio.What)}
	}
	after := TakeSnap(tEvent, s2, P.Idx)
	have := map[string]bool{}
	for _, h := range after.Order {
		have[h] = true
	}
	for i, h := range acked {
		if !have[h] {
			return fw.Verdict{Status: fw.Violated, Key: "load-race/acknowledged-write-removed", NonTrivial: true, Sig: v.Sig,
				What: fmt.Sprintf("write %d (%s) was acknowledged while %s was filling the fresh handle (%d stored entries) and is not listed once the load has returned (%d listed)", i, short(h), route, n, len(after.Order))}
		}
	}
	for _, h := range before.Order {
		if !have[h] {
			return fw.Verdict{Status: fw.Violated, Key: "load-race/stored-entry-missing", NonTrivial: true, Sig: v.Sig,
				What: fmt.Sprintf("stored entry %s is not listed after %s returned nil (%d stored, %d listed, %d written meanwhile)", short(h), route, len(before.Order), len(after.Order), len(acked))}
		}
	}
	if vio := checkSnapAgainstModel(tEvent, after.Entries, after, &v); vio != nil {
		return fw.Verdict{Status: fw.Violated, Key: "load-race/" + vio.Key, What: vio.What, NonTrivial: true, Sig: v.Sig}
	}
	v.Status = fw.Held
	v.Sample = map[string]interface{}{"mode": "load-race", "route": route, "stored": n, "trigger": trigger, "acknowledged": len(acked), "acknowledged_while_loading": duringLoad}
	return v
}
