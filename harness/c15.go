package main

import (
	"context"
	"fmt"
	"math/rand"
	"time"

	idp "berty.tech/go-ipfs-log/identityprovider"
	"berty.tech/go-ipfs-log/keystore"
	"berty.tech/go-orbit-db/accesscontroller"
	"berty.tech/go-orbit-db/accesscontroller/simple"
	"berty.tech/go-orbit-db/address"
	"berty.tech/go-orbit-db/cache/cacheleveldown"
	"berty.tech/go-orbit-db/iface"
	"berty.tech/go-orbit-db/stores/documentstore"
	"berty.tech/go-orbit-db/stores/eventlogstore"
	"berty.tech/go-orbit-db/stores/kvstore"
	ds "github.com/ipfs/go-datastore"
	dsync "github.com/ipfs/go-datastore/sync"

	"verifharness/fw"
	"verifharness/sim"
)

func init() {
	fw.Register(&fw.Property{
		ID:    "C15",
		Level: "fault_enumeration",
		Rule: "ENUMERATED limits per persisted log: log shape {single chain of 5-40, two heads (local + replicated branch of unequal length), three heads, merged fork under one head} x limit n in {-5, -1, 0, 1, 2, shortest branch -1/0/+1, total-1, total, total+1, total+50} x {Load(n) per call on a fresh store, the same followed by Load(-1) on the same handle, the same followed by local writes and a complete reload, Load(n) on a fresh store that already received the entries through replication, NewStoreOptions.MaxHistory = n with Load(0) on a store built with the public constructor over the same cache directory} x store type; the log is written, the instance closed and a fresh instance loads it; in per-call mode the same handle is then loaded twice more with the same limit, each time after 1-3 newer entries were persisted through a sibling handle of the same instance; in the then-write mode (limits 1, 2, shortest branch, total-1) the application writes 1-2 entries through the partially loaded handle, the instance is restarted once more and Load(-1) must list every entry persisted before plus the new ones. One limit per case (a crash is attributed to the limit). " +
			"distinct = (shape, lengths, limit relative to the log, mode, store type); non-trivial = total >= 2 and the load returned",
		Assumptions: []string{"logs are sampled, limits enumerated", "MaxHistory mode uses a wildcard write list so that the constructor-built store's simple controller is equivalent"},
		Cases:       c15Cases,
		Run:         c15Run,
		MinDistinct: map[string]int{"quick": 70, "thorough": 350},
		Batch:       10,
		Explain:     "oracle: no panic, no error; visible count = min(n,total) for n>0 and total for n<=0; the listing is a subsequence of the full reference order and contains its newest entry; for a single writer it is exactly the last n; view = replay of the listing.",
	})
}

var c15Shapes = []string{"chain", "two-heads", "three-heads", "merged"}

func c15Cases(tier string, seed int64) []fw.Case {
	var out []fw.Case
	rng := rand.New(rand.NewSource(seed*472882027 + 15))
	reps := 1
	if tier == "thorough" {
		reps = 5
	}
	idx := 0
	for rep := 0; rep < reps; rep++ {
		for si, shape := range c15Shapes {
			a, b, cc := 3+rng.Intn(8), 2+rng.Intn(12), 1+rng.Intn(5)
			if shape == "chain" {
				a = 5 + rng.Intn(36)
			}
			for _, lim := range []string{"-5", "-1", "0", "1", "2", "short-1", "short", "short+1", "total-1", "total", "total+1", "total+50"} {
				for mi, mode := range []string{"per-call", "max-history", "per-call-after-replication", "per-call-then-write", "per-call-then-full"} {
					if (mode == "per-call-then-write" || mode == "per-call-then-full") && lim != "1" && lim != "2" && lim != "short" && lim != "total-1" {
						continue
					}
					if mode == "per-call-after-replication" && (shape == "chain" || (lim != "1" && lim != "short" && lim != "total-1" && lim != "total+1")) {
						continue
					}
					if mode == "max-history" && (lim == "-5" || lim == "short") && rep == 0 {
						continue
					}
					out = append(out, fw.Case{Idx: idx, Seed: rng.Int63(), P: map[string]interface{}{
						"shape": shape, "a": a, "b": b, "c": cc, "lim": lim, "mode": mode, "type": storeTypes[(si+mi+idx)%3],
					}})
					idx++
				}
			}
		}
	}
	return out
}

func c15Run(c fw.Case) fw.Verdict {
	e := NewEnv()
	defer e.Close()
	v := fw.Verdict{}
	shape, typ, mode, lim := c.Str("shape", "chain"), c.Str("type", tEvent), c.Str("mode", "per-call"), c.Str("lim", "1")
	a, b, cc := c.Int("a", 5), c.Int("b", 3), c.Int("c", 2)
	P, err := e.W.AddPeer(sim.PeerOpts{OnDisk: true})
	if err != nil {
		return fw.Verdict{Status: fw.Inconclusive, What: err.Error()}
	}
	nOthers := map[string]int{"chain": 0, "two-heads": 1, "three-heads": 2, "merged": 1}[shape]
	var others []*sim.Peer
	for i := 0; i < nOthers; i++ {
		o, err := e.W.AddPeer(sim.PeerOpts{})
		if err != nil {
			return fw.Verdict{Status: fw.Inconclusive, What: err.Error()}
		}
		others = append(others, o)
	}
	writers := idsOf(append([]*sim.Peer{P}, others...)...)
	if mode == "max-history" {
		writers = []string{"*"}
	}
	db, err := e.CreateDB("c15", typ, P, others, writers)
	if err != nil {
		return fw.Verdict{Status: fw.Inconclusive, What: "create: " + err.Error()}
	}
	sP := db.Stores[P.Idx]
	e.W.Flush()
	k := 0
	wr := func(s iface.Store, n int) error {
		for i := 0; i < n; i++ {
			op := honestOp(typ, k)
			if mode == "per-call-then-full" {
				op = uniqueKeyOp(typ, k)
			}
			if _, err := ApplyOp(bg, s, op); err != nil {
				return err
			}
			k++
		}
		return nil
	}
	short := a
	if err := wr(sP, a); err != nil {
		return fw.Verdict{Status: fw.Inconclusive, What: err.Error()}
	}
	lens := []int{b, cc}
	for i, o := range others {
		if err := wr(db.Stores[o.Idx], lens[i]); err != nil {
			return fw.Verdict{Status: fw.Inconclusive, What: err.Error()}
		}
		if lens[i] < short {
			short = lens[i]
		}
	}
	e.W.Settle()
	e.W.DropAll()
	for _, o := range others {
		_ = sP.Sync(bg, cloneHeads(headsOf(db.Stores[o.Idx]))) // the request context must outlive the asynchronous replication
		e.W.Flush()
	}
	if shape == "merged" {
		if err := wr(sP, 2); err != nil {
			return fw.Verdict{Status: fw.Inconclusive, What: err.Error()}
		}
		e.W.Flush()
	}
	full := TakeSnap(typ, sP, P.Idx)
	full0Heads := headsOf(sP)
	total := len(full.Order)
	authors := map[string]bool{}
	for _, h := range full.Order {
		authors[full.Entries[h].Author] = true
	}
	n := map[string]int{"-5": -5, "-1": -1, "0": 0, "1": 1, "2": 2, "short-1": short - 1, "short": short, "short+1": short + 1, "total-1": total - 1, "total": total, "total+1": total + 1, "total+50": total + 50}[lim]
	fmt.Fprintf(stderrW, "=== KEYSUFFIX /n%s\n", relClass(n, short, total))
	defer fmt.Fprintf(stderrW, "=== KEYSUFFIX \n")

	// close the instance, load from a fresh one
	P.Stop()
	e.W.Settle()
	var s2 iface.Store
	ctx, cancel := context.WithTimeout(bg, 60*time.Second)
	defer cancel()
	var loadErr error
	if mode == "per-call" || mode == "per-call-after-replication" || mode == "per-call-then-write" || mode == "per-call-then-full" {
		if err := P.Start(); err != nil {
			return fw.Verdict{Status: fw.Inconclusive, What: "restart: " + err.Error()}
		}
		if err := e.OpenOn(db, P); err != nil {
			return fw.Verdict{Status: fw.Inconclusive, What: "reopen: " + err.Error()}
		}
		s2 = db.Stores[P.Idx]
		if mode == "per-call-after-replication" {
			// the entries reach the fresh store through replication before Load(n) is called
			for _, o := range others {
				_ = s2.Sync(bg, cloneHeads(headsOf(db.Stores[o.Idx])))
			}
			_ = s2.Sync(bg, cloneHeads(full0Heads))
			e.W.Flush()
		}
		loadErr = s2.Load(ctx, n)
	} else {
		addr, _ := address.Parse(db.Addr)
		cm := cacheleveldown.New(nil)
		defer cm.Close()
		cds, err := cm.Load(P.Dir, addr)
		if err != nil {
			return fw.Verdict{Status: fw.Inconclusive, What: "cache: " + err.Error()}
		}
		ks, _ := keystore.NewKeystore(dsync.MutexWrap(ds.NewMapDatastore()))
		ident, err := idp.CreateIdentity(bg, &idp.CreateIdentityOptions{Keystore: ks, Type: "orbitdb", ID: "loader"})
		if err != nil {
			return fw.Verdict{Status: fw.Inconclusive, What: "identity: " + err.Error()}
		}
		params := accesscontroller.NewEmptyManifestParams()
		params.SetAccess("write", []string{"*"})
		ac, _ := simple.NewSimpleAccessController(bg, nil, params)
		f := false
		mh := n
		opts := &iface.NewStoreOptions{AccessController: ac, Replicate: &f, Cache: cds, CacheDestroy: func() error { return nil }, IO: cborIO(), EventBus: e.H.NewBus(), MaxHistory: &mh}
		switch typ {
		case tKV:
			s2, err = kvstore.NewOrbitDBKeyValue(P.API, ident, addr, opts)
		case tDocs:
			s2, err = documentstore.NewOrbitDBDocumentStore(P.API, ident, addr, opts)
		default:
			s2, err = eventlogstore.NewOrbitDBEventLogStore(P.API, ident, addr, opts)
		}
		if err != nil {
			return fw.Verdict{Status: fw.Inconclusive, What: "constructor: " + err.Error()}
		}
		defer s2.Close()
		loadErr = s2.Load(ctx, 0)
	}
	e.W.Settle()
	v.Sig = fw.HashSig(shape, a, b, cc, lim, mode, typ)
	v.NonTrivial = total >= 2
	v.Count("loads", 1)
	cls := relClass(n, short, total)
	reloads := 0
	if loadErr != nil {
		return fw.Verdict{Status: fw.Violated, Key: "load-error/n" + cls, NonTrivial: true, Sig: v.Sig, What: fmt.Sprintf("Load with limit %d (%s) on a %s log of %d entries returned %v", n, mode, shape, total, loadErr)}
	}
	judge := func(full *Snap, phase string) *fw.Verdict {
		total := len(full.Order)
		got := TakeSnap(typ, s2, P.Idx)
		want := total
		if n > 0 && n < total {
			want = n
		}
		if len(got.Order) != want {
			return &fw.Verdict{Status: fw.Violated, Key: fmt.Sprintf("wrong-count%s/n%s/%s", phase, cls, shape), NonTrivial: true, Sig: v.Sig,
				What: fmt.Sprintf("Load%s with limit %d (%s) on a %s log of %d entries (shortest branch %d) shows %d entries, expected %d", phase, n, mode, shape, total, short, len(got.Order), want)}
		}
		if !IsSubsequence(got.Order, full.Order) {
			return &fw.Verdict{Status: fw.Violated, Key: "out-of-order" + phase + "/n" + cls, NonTrivial: true, Sig: v.Sig, What: fmt.Sprintf("listing after Load%s(%d) [%s] is not a subsequence of the full order [%s]", phase, n, shorts(got.Order), shorts(full.Order))}
		}
		if want > 0 && got.Order[len(got.Order)-1] != full.Order[total-1] {
			return &fw.Verdict{Status: fw.Violated, Key: "newest-missing" + phase + "/n" + cls, NonTrivial: true, Sig: v.Sig, What: fmt.Sprintf("listing after Load%s(%d) [%s] does not contain the newest persisted entry %s", phase, n, shorts(got.Order), shorts(full.Order[total-1:]))}
		}
		if len(authors) == 1 && !eqStrings(got.Order, full.Order[total-want:]) {
			return &fw.Verdict{Status: fw.Violated, Key: "not-most-recent" + phase + "/n" + cls, NonTrivial: true, Sig: v.Sig, What: fmt.Sprintf("single-writer log: Load%s(%d) lists [%s], the %d most recent are [%s]", phase, n, shorts(got.Order), want, shorts(full.Order[total-want:]))}
		}
		if want == total {
			// a complete load must show the complete state
			if got.View != full.View {
				return &fw.Verdict{Status: fw.Violated, Key: "view-differs" + phase + "/n" + cls, NonTrivial: true, Sig: v.Sig, What: "complete load shows a different state than the handle that wrote the log"}
			}
		} else if typ == tEvent && ModelView(typ, got.Entries, got.Order) != got.View {
			return &fw.Verdict{Status: fw.Violated, Key: "view-not-replay" + phase + "/n" + cls, NonTrivial: true, Sig: v.Sig, What: "view is not the listing of the loaded entries"}
		}
		v.Count("listing_checks", 1)
		v.Sample = map[string]interface{}{"shape": shape, "total": total, "shortest_branch": short, "limit": n, "mode": mode, "type": typ, "visible": len(got.Order), "reloads": reloads}
		return nil
	}
	if bad := judge(full, ""); bad != nil {
		return *bad
	}
	if mode == "per-call" {
		// the same handle is loaded again with the same limit after newer entries were persisted through a
		// sibling handle of the same instance (they share the cache)
		sib, err := P.DB.Open(ctx, db.Addr, &iface.CreateDBOptions{})
		if err != nil {
			return fw.Verdict{Status: fw.Inconclusive, What: "sibling handle: " + err.Error()}
		}
		P.Track(sib)
		// the instance remembers one handle per address, and forgets it when either is closed
		defer s2.Close()
		defer sib.Close()
		if err := sib.Load(ctx, -1); err != nil {
			return fw.Verdict{Status: fw.Inconclusive, What: "sibling load: " + err.Error()}
		}
		rrng := rand.New(rand.NewSource(c.Seed + 3))
		for r := 0; r < 2; r++ {
			if err := wr(sib, 1+rrng.Intn(3)); err != nil {
				return fw.Verdict{Status: fw.Inconclusive, What: "sibling write: " + err.Error()}
			}
			e.W.Settle()
			for _, en := range TakeSnap(typ, sib, P.Idx).Entries {
				authors[en.Author] = true
			}
			if err := s2.Load(ctx, n); err != nil {
				return fw.Verdict{Status: fw.Violated, Key: "load-error-reload/n" + cls, NonTrivial: true, Sig: v.Sig, What: fmt.Sprintf("second Load(%d) on the same handle returned %v", n, err)}
			}
			e.W.Settle()
			reloads++
			if bad := judge(TakeSnap(typ, sib, P.Idx), "-again"); bad != nil {
				return *bad
			}
		}
		v.Count("reloads_same_handle", int64(reloads))
	}
	if mode == "per-call-then-full" {
		// the same handle is then asked for everything: a non-positive limit loads everything, and what a
		// Load makes visible is there when it returns
		if err := s2.Load(ctx, -1); err != nil {
			return fw.Verdict{Status: fw.Violated, Key: "load-error-full-after-limited/n" + cls, NonTrivial: true, Sig: v.Sig, What: fmt.Sprintf("Load(-1) on a handle loaded with limit %d returned %v", n, err)}
		}
		got := TakeSnap(typ, s2, P.Idx)
		v.Count("complete_loads_on_a_partially_loaded_handle", 1)
		if len(got.Order) != total || got.View != full.View {
			return fw.Verdict{Status: fw.Violated, Key: fmt.Sprintf("complete-load-incomplete-on-partially-loaded-handle/n%s/%s", cls, shape), NonTrivial: true, Sig: v.Sig,
				What: fmt.Sprintf("%s log of %d persisted entries: Load(%d) on a fresh handle, then Load(-1) on the same handle returned nil with %d entries listed (view complete: %v)", shape, total, n, len(got.Order), got.View == full.View)}
		}
	}
	if mode == "per-call-then-write" {
		// the application writes through the partially loaded handle; after another restart a complete load
		// must show every entry that was persisted before plus the new ones (a limit restricts what is shown,
		// never what is kept)
		var added []string
		for i := 0; i < 1+int(c.Seed%2); i++ {
			op, err := ApplyOp(bg, s2, honestOp(typ, 5000+i))
			if err != nil {
				return fw.Verdict{Status: fw.Violated, Key: "write-after-limited-load-failed/n" + cls, NonTrivial: true, Sig: v.Sig, What: fmt.Sprintf("write on a handle loaded with limit %d failed: %v", n, err)}
			}
			added = append(added, op.GetEntry().GetHash().String())
		}
		e.W.Settle()
		P.Stop()
		e.W.Settle()
		if err := P.Start(); err != nil {
			return fw.Verdict{Status: fw.Inconclusive, What: "second restart: " + err.Error()}
		}
		if err := e.OpenOn(db, P); err != nil {
			return fw.Verdict{Status: fw.Inconclusive, What: "second reopen: " + err.Error()}
		}
		s3 := db.Stores[P.Idx]
		if err := s3.Load(ctx, -1); err != nil {
			return fw.Verdict{Status: fw.Violated, Key: "load-error-after-write/n" + cls, NonTrivial: true, Sig: v.Sig, What: fmt.Sprintf("Load(-1) after a limited load (%d), a write and a restart returned %v", n, err)}
		}
		e.W.Settle()
		got := TakeSnap(typ, s3, P.Idx)
		have := map[string]bool{}
		for _, h := range got.Order {
			have[h] = true
		}
		missing := 0
		for _, h := range append(append([]string{}, full.Order...), added...) {
			if !have[h] {
				missing++
			}
		}
		v.Count("complete_loads_after_limited_load_and_write", 1)
		if missing > 0 || len(got.Order) != total+len(added) {
			return fw.Verdict{Status: fw.Violated, Key: fmt.Sprintf("complete-load-incomplete-after-limited-load-and-write/n%s/%s", cls, shape), NonTrivial: true, Sig: v.Sig,
				What: fmt.Sprintf("%s log of %d persisted entries: Load(%d) on a fresh handle, %d local write(s) through it, restart, Load(-1) lists %d entries (%d of the %d expected are missing)", shape, total, n, len(added), len(got.Order), missing, total+len(added))}
		}
	}
	v.Status = fw.Held
	return v
}

func relClass(n, short, total int) string {
	switch {
	case n <= 0:
		return "<=0"
	case n > total:
		return ">total"
	case n == total:
		return "=total"
	case n > short:
		return ">branch"
	default:
		return "<=branch"
	}
}
