#!/bin/bash
exit 0
