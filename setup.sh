#!/bin/bash
# Builds both harness binaries (plain and -race) from files on disk, offline.
set -e
cd "$(dirname "$0")"
export GOFLAGS=-mod=mod GOPROXY=off GOSUMDB=off GOTOOLCHAIN=local
mkdir -p .build evidence/replays
cp /repo/go.sum harness/go.sum
( cd harness && go build -tags verif -o ../.build/harness . )
( cd harness && go build -tags verif -race -o ../.build/harness-race . )
echo "setup ok"
